import Infretis.Lemmas.Template
import Infretis.Lemmas.TemplateSubst
import Infretis.Lemmas.TemplateNow
import Infretis.Lemmas.TemplateCp2k
import Infretis.Lemmas.CodecFixed
import Infretis.Lemmas.CodecLmp
import Infretis.Lemmas.CodecBox
/-!
# C19 — configuration, trajectory and input-template codecs are lossless

Property theorems only.  Models:
* `Infretis/Model/Template.lean` — `_modify_input`, `_read_input_settings`, `write_for_run` (the code after the
  repairs eaf64e1 / f746fff; the `…AsIs` definitions are the code before them, kept as record)
* `Infretis/Model/TemplateCp2k.lean` — the CP2K section-tree editor (`update_cp2k_input` and friends)
* `Infretis/Model/Codec.lean` — decimal fixed point, `.g96` and extended-xyz readers/writers
* `Infretis/Model/CodecLmp.lean` — `.lammpstrj` (numbers as opaque numpy tokens) and the TRR byte layout
The proofs live in `Infretis/Lemmas/{Template,TemplateSubst,TemplateCp2k,CodecFixed,CodecLmp}.lean`;
sections 3–5 restate the property theorems proved there.

All statements are for templates, settings and configurations of any size.
-/
namespace Infretis.C19

section Tmpl
open Infretis.Template

/-! ## 1. the mdp-style editor `_modify_input`

`modifyInput s t` is the content of the output file for template content `t` and settings `s`,
for the code as it is now (after the repair eaf64e1: a newline is written before the first
appended setting when the last piece written lacks one).  `modifyInputAsIs` is the code before
the repair, kept as the record of finding C19:mdp:append-after-missing-final-newline
(`mdp_asIs_…_counterexample`). -/

/-- **edit_exact (mdp), full strength.**  For every template (with or without final newline,
    also empty) the lines of the output are: the template's lines each passed through `editOut`;
    and, if some setting's key is no keyword of the template, the last of these lines completed
    with its newline, followed by one `key = value` line per such setting, in dict order.
    Remaining guards: no newline inside a key or a value (otherwise an edited or appended piece
    is not one line and the statement about lines is false). -/
theorem mdp_edit_exact (s : Settings) (t : Str)
    (hk : ∀ kv ∈ s, '\n' ∉ kv.1) (hv : ∀ kv ∈ s, '\n' ∉ kv.2) :
    linesKeep (modifyInput s t) =
      match appended s (writtenKeys (linesKeep t)) with
      | [] => (linesKeep t).map (editOut s)
      | a :: r => closeLast ((linesKeep t).map (editOut s)) ++ a :: r := by
  unfold modifyInput
  rw [modifyLines_flatten s hv _ (linesKeep_lines t),
      linesKeep_flatten_lines _ (outLines_lines s hk hv _ (linesKeep_lines t))]
  rfl

/-- `closeLast` touches only the last line and only by completing its newline -/
theorem mdp_closeLast_spec (l : Str) (ls : List Str) :
    closeLast (ls ++ [l]) = ls ++ [if l.getLast? = some '\n' then l else l ++ ['\n']] := by
  induction ls with
  | nil => simp [closeLast, closeNL]
  | cons a r ih =>
    cases r with
    | nil => simp [closeLast, closeNL]
    | cons b r' =>
      simp only [List.cons_append] at ih ⊢
      simp only [closeLast]
      rw [ih]

/-- keys that were not requested keep their lines (also lines without '=': comments, blanks) -/
theorem mdp_unrequested_kept (s : Settings) (l : Str)
    (h : ∀ kw, matchKey l = some kw → strip kw ∉ keys s) : editOut s l = l :=
  editOut_unrequested s l h

/-- requested keys get the value: the text before '=' is kept verbatim, the rest of the line
    (old value, trailing comment) is replaced by ` value\n` -/
theorem mdp_requested_set (s : Settings) (l kw v : Str)
    (hm : matchKey l = some kw) (hv : lookup s (strip kw) = some v) :
    editOut s l = kw ++ ['='] ++ [' '] ++ v ++ ['\n'] := by
  rw [editOut_requested s l kw v hm hv]; simp [setLine]

/-- exactly the settings whose key is not met in the file are appended, as `key = value\n` -/
theorem mdp_appended_exact (s : Settings) (w : List Str) (l : Str) :
    l ∈ appended s w ↔ ∃ k v, (k, v) ∈ s ∧ k ∉ w ∧ l = k ++ [' ', '=', ' '] ++ v ++ ['\n'] := by
  constructor
  · intro h
    obtain ⟨k, v, a, b, c⟩ := appended_mem h
    exact ⟨k, v, a, b, by simp [c, newLine]⟩
  · rintro ⟨k, v, a, b, rfl⟩
    simp only [appended, List.mem_filterMap]
    exact ⟨(k, v), a, by simp [b, newLine]⟩

example :
    modifyInput [("b".toList, "3".toList), ("d".toList, "q".toList)] "a = 1\n; c\nb=2 ; x".toList
      = "a = 1\n; c\nb= 3\nd = q\n".toList ∧
    modifyInput [("c".toList, "3".toList), ("d".toList, "4".toList)] "a = 1\nb = 2".toList
      = "a = 1\nb = 2\nc = 3\nd = 4\n".toList ∧
    modifyInput [("c".toList, "3".toList)] [] = "c = 3\n".toList := by decide

/-- **edit_idempotent (mdp), full strength in the template**: for EVERY template, applying the
    same settings to the output changes nothing.  Remaining guards (`WFSettings`): the settings
    are a dict (distinct keys); keys could be keywords of a line — no '=', no newline, no outer
    white space (a key violating this is never found again and is appended on every pass);
    values contain no newline. -/
theorem mdp_edit_idempotent (s : Settings) (t : Str) (hs : WFSettings s) :
    modifyInput s (modifyInput s t) = modifyInput s t := by
  have hL := linesKeep_lines t
  have hO := outLines_lines s hs.key_nonl hs.val_nonl _ hL
  unfold modifyInput
  rw [modifyLines_flatten s hs.val_nonl _ hL, linesKeep_flatten_lines _ hO,
      modifyLines_flatten s hs.val_nonl _ hO, outLines_idem hs _ hL]

example : WFSettings [("c".toList, "3".toList)] ∧
    modifyInput [("c".toList, "3".toList)] (modifyInput [("c".toList, "3".toList)] "a = 1\nb = 2".toList)
      = "a = 1\nb = 2\nc = 3\n".toList :=
  ⟨⟨by decide, by decide, by decide, by decide, by decide⟩, by decide⟩

/-- the guards on keys are needed: a key with a trailing blank is appended again on every pass -/
theorem mdp_edit_idempotent_key_guard_counterexample :
    ∃ (s : Settings) (t : Str), modifyInput s (modifyInput s t) ≠ modifyInput s t :=
  ⟨[("c ".toList, "3".toList)], "a = 1\n".toList, by decide⟩

/-- RECORD (code before eaf64e1): without the final newline the untouched line `b = 2` was
    glued to the appended setting (`b = 2c = 3`) -/
theorem mdp_asIs_edit_exact_counterexample :
    ∃ (s : Settings) (t : Str), (∀ kv ∈ s, '\n' ∉ kv.1) ∧ (∀ kv ∈ s, '\n' ∉ kv.2) ∧
      linesKeep (modifyInputAsIs s t)
        ≠ (linesKeep t).map (editOut s) ++ appended s (writtenKeys (linesKeep t)) ∧
      modifyInputAsIs s t = "a = 1\nb = 2c = 3\n".toList :=
  ⟨[("c".toList, "3".toList)], "a = 1\nb = 2".toList, by decide, by decide, by decide, by decide⟩

/-- RECORD (code before eaf64e1): …and a second application appended the setting once more -/
theorem mdp_asIs_edit_idempotent_counterexample :
    ∃ (s : Settings) (t : Str), WFSettings s ∧
      modifyInputAsIs s (modifyInputAsIs s t) ≠ modifyInputAsIs s t :=
  ⟨[("c".toList, "3".toList)], "a = 1\nb = 2".toList,
   ⟨by decide, by decide, by decide, by decide, by decide⟩, by decide⟩

/-! ## 2. LAMMPS `write_for_run`

`writeForRun s t` = (pieces written to the output file, how the call ended), for the code as
it is now (after the repair f746fff: `not_found.pop(var, None)`).  `writeForRunAsIs` is the code
before the repair (finding C19:lammps:variable-on-two-lines).  `occ k L` is the number of lines
of `L` on which the variable `k` is a white-space separated token. -/

/-- **edit_total / edit_exact (LAMMPS), full strength.**  Every template line is written, with
    every variable that is one of its tokens substring-replaced (`substOf`); the call never
    raises KeyError; it ends without error iff every variable is a token of at least one line,
    and with the ValueError iff some variable is a token of no line.  Only guard: the settings
    are a dict (distinct keys). -/
theorem lammps_edit_total (s : Settings) (t : Str) (hnd : (keys s).Nodup) :
    (writeForRun s t).written = (linesKeep t).map (substOf s) ∧
    ((writeForRun s t).err = none ↔ ∀ k ∈ keys s, 1 ≤ occ k (linesKeep t)) ∧
    ((writeForRun s t).err = some .value ↔ ∃ k ∈ keys s, occ k (linesKeep t) = 0) ∧
    (writeForRun s t).err ≠ some .key := by
  obtain ⟨a, b, c⟩ := wfrLines_spec' s (linesKeep t) (keys s) [] hnd (fun _ h => h)
  refine ⟨by simpa [writeForRun] using a, by simpa [writeForRun] using b,
          by simpa [writeForRun] using c, ?_⟩
  intro hk
  cases hcase : (writeForRun s t).err with
  | none => rw [hcase] at hk; cases hk
  | some e =>
    cases e with
    | value => rw [hcase] at hk; cases hk
    | key =>
      -- the error is `none` or `value`: decide by whether a variable is missing
      by_cases hmiss : ∃ k ∈ keys s, occ k (linesKeep t) = 0
      · have := (show (writeForRun s t).err = some .value from by simpa [writeForRun] using c.2 hmiss)
        rw [hcase] at this; cases this
      · have hall : ∀ k ∈ keys s, 1 ≤ occ k (linesKeep t) := by
          intro k hk'
          exact Nat.pos_of_ne_zero (fun h0 => hmiss ⟨k, hk', h0⟩)
        have := (show (writeForRun s t).err = none from by simpa [writeForRun] using b.2 hall)
        rw [hcase] at this; cases this

/-- a line none of whose tokens is a variable is copied unchanged -/
theorem lammps_untouched (s : Settings) (l : Str) (h : ∀ k ∈ keys s, k ∉ splitWS l) :
    substOf s l = l :=
  substLine_untouched _ s l h

/-- a single requested variable: every occurrence on a line where it is a token is replaced -/
theorem lammps_requested_set (k v l : Str) (h : k ∈ splitWS l) :
    substOf [(k, v)] l = replaceAll k v l := by
  simp [substOf, substLine, h]

example : (keys [("infretis_x".toList, "5".toList)]).Nodup ∧
    writeForRun [("infretis_x".toList, "5".toList)] "variable a equal infretis_x\nrun infretis_x\n".toList
    = { written := ["variable a equal 5\n".toList, "run 5\n".toList], err := none } := by decide

/-- RECORD (code before f746fff): a variable that is a token of two lines made
    `not_found.pop(var)` raise KeyError on the second line, after the first lines had been
    written (signature C19:lammps:variable-on-two-lines) -/
theorem lammps_asIs_edit_total_counterexample :
    ∃ (s : Settings) (t : Str), (keys s).Nodup ∧ (∀ k ∈ keys s, occ k (linesKeep t) ≥ 1) ∧
      writeForRunAsIs s t = { written := ["variable a equal 5\n".toList], err := some .key } :=
  ⟨[("infretis_x".toList, "5".toList)], "variable a equal infretis_x\nrun infretis_x\n".toList,
   by decide, by decide, by decide⟩

/-- RECORD: the failure modes of the code before f746fff, exactly (success iff every variable
    on exactly one line; KeyError iff some variable on two or more lines) -/
theorem lammps_asIs_outcome (s : Settings) (t : Str) (hnd : (keys s).Nodup) :
    ((writeForRunAsIs s t).err = none ↔ ∀ k ∈ keys s, occ k (linesKeep t) = 1) ∧
    ((writeForRunAsIs s t).err = some .key ↔ ∃ k ∈ keys s, occ k (linesKeep t) ≥ 2) := by
  obtain ⟨h1, h2, -, -⟩ := wfrLinesAsIs_spec s hnd (linesKeep t) (keys s) [] hnd (fun _ h => h)
  have q : ∀ k ∈ keys s, quota (keys s) k = 1 := fun k hk => by simp [quota, hk]
  constructor
  · unfold writeForRunAsIs; rw [h1]
    exact ⟨fun h k hk => by rw [h k hk, q k hk], fun h k hk => by rw [h k hk, q k hk]⟩
  · unfold writeForRunAsIs; rw [h2]
    exact ⟨fun ⟨k, hk, h⟩ => ⟨k, hk, by rw [q k hk] at h; omega⟩,
           fun ⟨k, hk, h⟩ => ⟨k, hk, by rw [q k hk]; omega⟩⟩

/-- **edit_idempotent (LAMMPS), second half: what a further application does.**  On a text in
    which no variable of `s` is a token any more, `write_for_run` copies every byte unchanged
    and then takes its own error branch: ValueError naming the keys of `s` (unless `s` is empty). -/
theorem lammps_apply_without_vars (s : Settings) (t : Str) (hnd : (keys s).Nodup)
    (h0 : ∀ l ∈ linesKeep t, ∀ k ∈ keys s, k ∉ splitWS l) :
    (writeForRun s t).written.flatten = t ∧
    (writeForRun s t).err = if s = [] then none else some .value := by
  have hocc : ∀ k ∈ keys s, occ k (linesKeep t) = 0 := by
    intro k hk
    unfold occ
    rw [List.length_eq_zero_iff, List.filter_eq_nil_iff]
    intro l hl
    simpa using h0 l hl k hk
  obtain ⟨o1, o2, o3, -⟩ := lammps_edit_total s t hnd
  constructor
  · rw [o1]
    have : (linesKeep t).map (substOf s) = linesKeep t := by
      conv => rhs; rw [← List.map_id (linesKeep t)]
      apply List.map_congr_left
      intro l hl
      exact substLine_untouched _ s l (h0 l hl)
    rw [this, linesKeep_join]
  · cases s with
    | nil => simp only [if_true]; exact o2.2 (by simp [keys])
    | cons kv r =>
      simp only [reduceCtorEq, if_false]
      exact o3.2 ⟨kv.1, by simp [keys], hocc _ (by simp [keys])⟩

example : writeForRun [("infretis_x".toList, "5".toList)] "variable a equal 5\nrun 1\n".toList
    = { written := ["variable a equal 5\n".toList, "run 1\n".toList], err := some .value } := by decide

/-! **edit_idempotent (LAMMPS), first half.**  The full statement

    lammps_no_var_remains : ∀ l ∈ (writeForRun s t).written, ∀ k ∈ keys s, k ∉ splitWS l

is FALSE of the code as it is: a value may itself contain a variable name, and the tokens of a
line are computed once, before the replacements, so such a variable is not substituted
(`lammps_no_var_remains_counterexample`).  It holds under the guards
  G1  no value contains a variable of `s` as a substring,
  G2  a template token that contains a variable as a substring is that variable
(`lammps_no_var_remains_partial`; the proof is the token-boundary theory of `str.replace` in
`Lemmas/TemplateSubst.lean`). -/

theorem lammps_no_var_remains_counterexample :
    ∃ (s : Settings) (t : Str), (keys s).Nodup ∧ (writeForRun s t).err = none ∧
      ∃ l ∈ (writeForRun s t).written, ∃ k ∈ keys s, k ∈ splitWS l :=
  ⟨[("x".toList, "y".toList), ("y".toList, "1".toList)], "x\ny\n".toList, by decide, by decide,
   "y\n".toList, by decide, "y".toList, by decide, by decide⟩

/-- after the edit no variable of `s` is a token of any written line, for values free of variable names (G1) and templates in which variables
    occur only as whole tokens (G2) -/
theorem lammps_no_var_remains_partial (s : Settings) (t : Str) (hnd : (keys s).Nodup)
    (G1 : ∀ kv ∈ s, ∀ k ∈ keys s, ¬ k <:+: kv.2)
    (G2 : ∀ l ∈ linesKeep t, ∀ tok ∈ splitWS l, ∀ k ∈ keys s, k <:+: tok → tok = k) :
    ∀ l ∈ (writeForRun s t).written, ∀ k ∈ keys s, k ∉ splitWS l := by
  intro l hl
  rw [(lammps_edit_total s t hnd).1] at hl
  obtain ⟨l0, hl0, rfl⟩ := List.mem_map.1 hl
  exact substOf_no_var s l0 G1 (G2 l0 hl0)

example :
    let s : Settings := [("infretis_a".toList, "1.5".toList), ("infretis_b".toList, "/tmp/x y".toList)]
    let t : Str := "variable a index infretis_a # c\nrun infretis_b infretis_b\n".toList
    (keys s).Nodup ∧ (writeForRun s t).written =
      ["variable a index 1.5 # c\n".toList, "run /tmp/x y /tmp/x y\n".toList] := by decide

/-- the guards G1, G2 are satisfiable together with a successful edit -/
example :
    (keys [("$a".toList, "1".toList)]).Nodup ∧
    (∀ kv ∈ [("$a".toList, "1".toList)], ∀ k ∈ keys [("$a".toList, "1".toList)], ¬ k <:+: kv.2) ∧
    (∀ l ∈ linesKeep "v $a\n".toList, ∀ tok ∈ splitWS l, ∀ k ∈ keys [("$a".toList, "1".toList)],
        k <:+: tok → tok = k) := by
  have hl : linesKeep "v $a\n".toList = ["v $a\n".toList] := by decide
  have hs : splitWS "v $a\n".toList = ["v".toList, "$a".toList] := by decide
  refine ⟨by decide, ?_, ?_⟩
  · intro kv hkv k hk hinf
    simp only [List.mem_singleton] at hkv
    simp only [keys, List.map_cons, List.map_nil, List.mem_singleton] at hk
    subst hkv; subst hk
    exact absurd (hinf.subset (by decide : '$' ∈ "$a".toList)) (by decide)
  · intro l hl' tok htok k hk hinf
    rw [hl] at hl'
    simp only [List.mem_singleton] at hl'
    subst hl'
    rw [hs] at htok
    simp only [keys, List.map_cons, List.map_nil, List.mem_singleton] at hk
    subst hk
    simp only [List.mem_cons, List.not_mem_nil, or_false] at htok
    rcases htok with rfl | rfl
    · exact absurd (hinf.subset (by decide : '$' ∈ "$a".toList)) (by decide)
    · rfl

end Tmpl

/-! ## 3. the CP2K section-tree editor (`update_cp2k_input`)

Model: arena of nodes + roots + `node_ref` (Python dict semantics), children in insertion order;
all comparisons in the tie are on canonical trees (sibling order immaterial).  The model follows
the code after fix 6e4f7f3 (created sections keep their values, `None` values give the bare
key, section parameters are added once, `replace` leaves unrequested parameters alone); the
four findings it repaired are kept as `cp2k_asIs_…` records about `…AsIs` copies of the old
functions.  Two findings are open (`set_parents`): `cp2k_third_duplicate_bare`,
`cp2k_duplicate_children_counterexample`. -/
section Cp2k
open Infretis.Cp2k

/-- **edit_exact (CP2K), target present.**  Exactly the target node changes: merge law (existing
    keys rewritten in place, new keys appended in dict order, `None` → bare key) or replace law;
    section parameters: untouched when not requested, replaced in replace mode, otherwise the
    requested ones that are not there yet are appended (`newSettings`); every other node, the
    roots and `node_ref` unchanged. -/
theorem cp2k_edit_exact_present (u : Upd) (st : St) (i : Nat) (n : Node)
    (href : dget u.target st.ref = some i) (hn : st.arena[i]? = some n)
    (hmode : u.replace = true ∨ (u.isList = false ∧ ∀ l ∈ n.data, (firstTok l).isSome = true)) :
    ∃ st', updateNode u st = .ok st' ∧ st'.roots = st.roots ∧ st'.ref = st.ref ∧
      st'.arena.length = st.arena.length ∧ (∀ j, j ≠ i → st'.arena[j]? = st.arena[j]?) ∧
      st'.arena[i]? = some { n with
        data := if u.replace then u.data.map (·.1) else mergeSpec u.data n.data,
        settings := newSettings u.settings u.replace n.settings } :=
  Infretis.Cp2k.cp2k_edit_exact_present u st i n href hn hmode

/-- the two loops of `update_node` compute the merge specification -/
theorem cp2k_merge_eq_spec (u : Upd) (old : List Str) (hl : u.isList = false)
    (htok : ∀ l ∈ old, (firstTok l).isSome = true) :
    mergeData u old = .ok (mergeSpec u.data old) :=
  Infretis.Cp2k.mergeData_eq_spec u old hl htok

/-- **edit_exact (CP2K), target absent.**  The new state extends the old one (no existing node
    changes; children lists and roots only grow; keys keep their nodes) and the last node is the
    requested one: requested parameters (or none) and one `KEY value` line (bare `KEY` for a
    `None` value) per requested entry. -/
theorem cp2k_edit_exact_absent (u : Upd) (st : St) (hwf : RefOk st) (habs : dget u.target st.ref = none) :
    ∃ st', updateNode u st = .ok st' ∧ RefOk st' ∧ Ext st st' ∧ st.arena.length < st'.arena.length ∧
      ∃ nn, st'.arena[st'.arena.length - 1]? = some nn ∧ dget u.target st'.ref = some (st'.arena.length - 1) ∧
        (splitArrow u.target).getLast? = some nn.title ∧ nn.settings = u.settings.getD [] ∧
        nn.data = u.data.map fmtEntry ∧ nn.children = [] :=
  Infretis.Cp2k.cp2k_edit_exact_absent u st hwf habs

/-- **edit_idempotent (CP2K), target present — full.**  A second application of the same update
    entry returns the same state.  Remaining guard: none in replace mode or for list data; in
    merge mode with dict data the keys are distinct non-empty white-space-free tokens (`DataOk`).
    Section parameters are unconstrained and `None` values allowed. -/
theorem cp2k_edit_idempotent (u : Upd) (st st1 : St) (i : Nat)
    (href : dget u.target st.ref = some i) (h1 : updateNode u st = .ok st1)
    (hg : u.replace = true ∨ u.isList = true ∨ DataOk u.data) :
    updateNode u st1 = .ok st1 :=
  Infretis.Cp2k.cp2k_edit_idempotent u st st1 i href h1 hg

/-- **edit_idempotent (CP2K), target absent.**  After the section has been created, applying the
    same (merge-mode, dict) entry again changes nothing. -/
theorem cp2k_edit_idempotent_absent (u : Upd) (st st1 : St) (hwf : RefOk st) (habs : dget u.target st.ref = none)
    (hr : u.replace = false) (hl : u.isList = false) (hok : DataOk u.data)
    (h1 : updateNode u st = .ok st1) : updateNode u st1 = .ok st1 :=
  Infretis.Cp2k.cp2k_edit_idempotent_absent u st st1 hwf habs hr hl hok h1

set_option maxRecDepth 4000 in
/-- falsy-but-valid values are values: a section that has to be created keeps `BACKUP_COPIES 0`
    and `FILENAME ` (empty string); only Python `None` (`none`) gives the bare flag.  In the model a
    value reaches `fmtEntry` as `Option Str` = `str(value)`, so `some "0"`, `some ""`,
    `some "False"` are all different from `none`. -/
theorem cp2k_created_section_keeps_falsy_values :
    updateInput tplMD [updZero] [] = .ok "&MOTION\n  &MD\n    STEPS 10\n  &END MD\n  &PRINT\n    &RESTART\n      BACKUP_COPIES 0\n    &END RESTART\n  &END PRINT\n&END MOTION\n".toList ∧
    updateInput tplMD [updEmpty] [] = .ok "&MOTION\n  &MD\n    STEPS 10\n  &END MD\n  &PRINT\n    &RESTART\n      FILENAME \n    &END RESTART\n  &END PRINT\n&END MOTION\n".toList :=
  ⟨Infretis.Cp2k.cp2k_created_section_keeps_zero, Infretis.Cp2k.cp2k_created_section_keeps_empty⟩

example : updZero.data.map fmtEntry = ["BACKUP_COPIES 0".toList] ∧ updEmpty.data.map fmtEntry = ["FILENAME ".toList] ∧
    fmtEntry ("K".toList, some "False".toList) = "K False".toList ∧ fmtEntry ("K".toList, none) = "K".toList ∧
    dget updZero.target stMD.ref = none := by decide

/-- the repaired behaviour on the four former witnesses -/
theorem cp2k_fixed_witnesses :
    (updateInput tplMD [updSettings] [] = .ok "&MOTION\n  &MD X\n    STEPS 10\n  &END MD\n&END MOTION\n".toList ∧
     updateInput "&MOTION\n  &MD X\n    STEPS 10\n  &END MD\n&END MOTION\n".toList [updSettings] [] =
       .ok "&MOTION\n  &MD X\n    STEPS 10\n  &END MD\n&END MOTION\n".toList) ∧
    (updateInput tplMD [updNone] [] = .ok "&MOTION\n  &MD\n    STEPS 10\n    FOO\n  &END MD\n&END MOTION\n".toList ∧
     updateInput "&MOTION\n  &MD\n    STEPS 10\n    FOO\n  &END MD\n&END MOTION\n".toList [updNone] [] =
       .ok "&MOTION\n  &MD\n    STEPS 10\n    FOO\n  &END MD\n&END MOTION\n".toList) ∧
    updateInput tplMD [updEach] [] =
      .ok "&MOTION\n  &MD\n    STEPS 10\n  &END MD\n  &PRINT\n    &EACH\n      MD 5\n    &END EACH\n  &END PRINT\n&END MOTION\n".toList ∧
    updateInput tplKY [updReplace] [] = .ok "&A\n  &K Y\n    W 9\n  &END K\n&END A\n".toList :=
  ⟨Infretis.Cp2k.cp2k_fixed_settings_once, Infretis.Cp2k.cp2k_fixed_none_value,
   Infretis.Cp2k.cp2k_fixed_new_section_keeps_values, Infretis.Cp2k.cp2k_fixed_replace_keeps_settings⟩

/-- RECORD (code before 6e4f7f3, finding C19:cp2k:settings-appended-twice): `&MD X` → `&MD X X` -/
theorem cp2k_asIs_settings_appended_twice :
    updateInputAsIs tplMD [updSettings] [] = .ok "&MOTION\n  &MD X\n    STEPS 10\n  &END MD\n&END MOTION\n".toList ∧
    updateInputAsIs "&MOTION\n  &MD X\n    STEPS 10\n  &END MD\n&END MOTION\n".toList [updSettings] [] =
      .ok "&MOTION\n  &MD X X\n    STEPS 10\n  &END MD\n&END MOTION\n".toList :=
  Infretis.Cp2k.cp2k_asIs_settings_appended_twice

/-- RECORD (finding C19:cp2k:none-value-printed-as-None): `FOO`, then `FOO None` -/
theorem cp2k_asIs_none_value :
    updateInputAsIs tplMD [updNone] [] = .ok "&MOTION\n  &MD\n    STEPS 10\n    FOO\n  &END MD\n&END MOTION\n".toList ∧
    updateInputAsIs "&MOTION\n  &MD\n    STEPS 10\n    FOO\n  &END MD\n&END MOTION\n".toList [updNone] [] =
      .ok "&MOTION\n  &MD\n    STEPS 10\n    FOO None\n  &END MD\n&END MOTION\n".toList :=
  Infretis.Cp2k.cp2k_asIs_none_value

/-- RECORD (finding C19:cp2k:new-section-drops-values): the requested `MD 5` was printed as `MD` -/
theorem cp2k_asIs_new_section_drops_values :
    updateInputAsIs tplMD [updEach] [] =
      .ok "&MOTION\n  &MD\n    STEPS 10\n  &END MD\n  &PRINT\n    &EACH\n      MD\n    &END EACH\n  &END PRINT\n&END MOTION\n".toList :=
  Infretis.Cp2k.cp2k_asIs_new_section_drops_values

/-- RECORD (finding C19:cp2k:replace-wipes-settings): `&K Y` became `&K` -/
theorem cp2k_asIs_replace_wipes_settings :
    updateInputAsIs tplKY [updReplace] [] = .ok "&A\n  &K\n    W 9\n  &END K\n&END A\n".toList :=
  Infretis.Cp2k.cp2k_asIs_replace_wipes_settings

/-- removal is idempotent -/
theorem cp2k_remove_idempotent (target : Str) (st st' : St) (hn : (st.ref.map (·.1)).Nodup)
    (h : removeNode target st = .ok st') : removeNode target st' = .ok st' :=
  Infretis.Cp2k.cp2k_remove_idempotent target st st' hn h

/-- duplicate-title disambiguation, two siblings: both addressable by `path->settings` -/
theorem cp2k_duplicates_pair_partial (arena : List Node) (ref : List (Str × Nat)) (a b : Nat)
    (hp : pathKey arena b = pathKey arena a) (habs : dget (pathKey arena a) ref = none)
    (hs : settingsKey arena a ≠ settingsKey arena b) :
    dget (pathKey arena a ++ arrow ++ settingsKey arena a) (register arena (register arena ref a) b) = some a ∧
    dget (pathKey arena a ++ arrow ++ settingsKey arena b) (register arena (register arena ref a) b) = some b ∧
    dget (pathKey arena a) (register arena (register arena ref a) b) = none :=
  Infretis.Cp2k.register_pair arena ref a b hp habs hs

/-- OPEN finding C19:cp2k:third-duplicate-bare-key: a THIRD sibling with the same title is
    registered under the bare path and cannot be addressed by its settings, for any arena -/
theorem cp2k_third_duplicate_bare (arena : List Node) (ref : List (Str × Nat)) (a b c : Nat)
    (hpb : pathKey arena b = pathKey arena a) (hpc : pathKey arena c = pathKey arena a)
    (habs : dget (pathKey arena a) ref = none)
    (habs3 : dget (pathKey arena a ++ arrow ++ settingsKey arena c) ref = none)
    (hca : settingsKey arena c ≠ settingsKey arena a) (hcb : settingsKey arena c ≠ settingsKey arena b) :
    dget (pathKey arena a) (register arena (register arena (register arena ref a) b) c) = some c ∧
    dget (pathKey arena a ++ arrow ++ settingsKey arena c)
      (register arena (register arena (register arena ref a) b) c) = none :=
  Infretis.Cp2k.register_third_bare arena ref a b c hpb hpc habs habs3 hca hcb

/-- concrete witness: updating `A->K->Z` creates `&Z` inside `&K Z` instead of editing it -/
theorem cp2k_three_duplicates_counterexample :
    (readText tpl3).map (fun rs => rs.toSt.ref) =
      .ok [("A".toList, 0), ("A->K->X".toList, 1), ("A->K->Y".toList, 2), ("A->K".toList, 3)] ∧
    updateInput tpl3 [updZ] [] =
      .ok "&A\n  &K X\n  &END K\n  &K Y\n  &END K\n  &K Z\n    &Z\n      V 9\n    &END Z\n  &END K\n&END A\n".toList :=
  Infretis.Cp2k.cp2k_three_duplicates_counterexample

/-- OPEN finding C19:cp2k:duplicate-children-unaddressable: a child of a disambiguated duplicate
    is registered without the suffix, so `A->K->X->NEW` creates a new `&NEW` on every application -/
theorem cp2k_duplicate_children_counterexample :
    updateInput tpl2 [updThrough] [] = .ok "&A\n  &K X\n    &NEW\n    &END NEW\n  &END K\n  &K Y\n  &END K\n&END A\n".toList ∧
    updateInput "&A\n  &K X\n    &NEW\n    &END NEW\n  &END K\n  &K Y\n  &END K\n&END A\n".toList [updThrough] [] =
      .ok "&A\n  &K X\n    &NEW\n    &END NEW\n    &NEW\n    &END NEW\n  &END K\n  &K Y\n  &END K\n&END A\n".toList :=
  Infretis.Cp2k.cp2k_duplicate_children_counterexample

example : dget updMerge.target stMD.ref = some 1 ∧ stMD.arena[1]?.isSome = true ∧ updMerge.isList = false := by decide

end Cp2k

/-! ## 4. decimal fixed-point text codecs: `.g96` and extended xyz

A number is a sign-magnitude decimal `Dec` (Python floats have a signed zero and
`-1 * vel` produces `-0.0`, printed `-0.000000000`), so the statements are exact to the byte. -/
section Codec
open Infretis.Codec

/-- reading back a `'{:width.prec f}'` field gives exactly the decimal written — any width,
    any magnitude (also when the field overflows), both zeros -/
theorem parse_fmt_fixed (width prec : Nat) (d : Dec) :
    parseFixed prec (fmtFixed width prec d) = some d :=
  Infretis.Codec.parse_fmt_fixed width prec d

theorem fmtFixed_length (width prec : Nat) (d : Dec) (h : (fmtCore prec d).length ≤ width) :
    (fmtFixed width prec d).length = width :=
  Infretis.Codec.fmtFixed_length width prec d h

example : parseFixed 9 (fmtFixed 15 9 ⟨true, 0⟩) = some ⟨true, 0⟩ ∧
    fmtFixed 15 9 ⟨true, 0⟩ = "   -0.000000000".toList := by decide

/-- **read_write_roundtrip (.g96)** for any atom count under the explicit width guard `G96Ok`
    (24-character labels, every position/velocity component fits its 15 columns, box components
    after the first keep a leading blank, one raw BOX line, 3 or 9 box components) -/
theorem g96_read_write_roundtrip (raw : G96Raw) (xyz vel : List V3) (box : List Dec)
    (h : G96Ok raw xyz vel box) :
    ∃ t, writeG96 raw xyz (some vel) (some box) = .ok t ∧
      readG96 t = .ok ⟨rawAfter raw box, xyz, vel, some box⟩ :=
  Infretis.Codec.g96_read_write_roundtrip raw xyz vel box h

/-- `|x| < 10^5` (non-negative) / `|x| < 10^4` (negative) fits a 15-column field -/
theorem g96_fit_of_lt (d : Dec) (hp : d.neg = false → d.mag < 10 ^ 14) (hn : d.neg = true → d.mag < 10 ^ 13) :
    Fit d :=
  Infretis.Codec.fit_of_lt d hp hn

example : G96Ok exRaw exXyz exVel exBox := Infretis.Codec.exG96_ok

/-- the widest numbers that still fit a 15-column field: 99999.999999999 and -9999.999999999 -/
example : Fit ⟨false, 99999999999999⟩ ∧ Fit ⟨true, 9999999999999⟩ :=
  ⟨Infretis.Codec.fit_of_lt _ (fun _ => by decide) (fun h => by cases h),
   Infretis.Codec.fit_of_lt _ (fun h => by cases h) (fun _ => by decide)⟩

/-- the box guard is necessary: BOX is read by white-space split, so a 15-column box field
    without a leading blank merges with its neighbour → ValueError (positions are read by columns) -/
theorem g96_roundtrip_wide_box_counterexample :
    ∃ t, writeG96 exRaw exXyz (some exVel) (some [⟨false, 7000000000⟩, ⟨true, 1234000000005⟩, ⟨false, 5⟩]) = .ok t ∧
      readG96 t = .error .value :=
  Infretis.Codec.g96_roundtrip_wide_box_counterexample

/-- **read_write_roundtrip (xyz)** for any atom count ≥ 1, any ordering, non-empty white-space
    free names, arbitrary 9-decimal numbers (no width guard: the reader splits on white space)
    and an arbitrary or absent 4-decimal box -/
theorem xyz_read_write_roundtrip (c : Conf) (h : XyzOk c) (t : Text)
    (hw : writeXyz (some c.names) c.pos c.vel c.box none = .ok t) :
    readXyzFrames t = ([snapOf c], none) ∧ convertSnapshot (snapOf c) = .ok c ∧
      readConfiguration t = .ok c :=
  Infretis.Codec.xyz_read_write_roundtrip c h t hw

theorem xyz_write_ok (c : Conf) (h : XyzOk c) :
    writeXyz (some c.names) c.pos c.vel c.box none = .ok (unlines (frameLines c)) :=
  Infretis.Codec.xyz_write_ok c h

example : XyzOk exConf := Infretis.Codec.exConf_ok

/-- zero atoms: the frame is written but `convert_snapshot` raises KeyError('atomname') -/
theorem xyz_roundtrip_zero_atoms_counterexample :
    ∃ t, writeXyz (some []) [] [] none none = .ok t ∧ readConfiguration t = .error .key :=
  Infretis.Codec.xyz_roundtrip_zero_atoms_counterexample

/-- **extract_frame_k (xyz).**  Frame `k` of a trajectory of any number of frames is written
    byte for byte as frame `k` alone would be; beyond the end nothing is written. -/
theorem extract_frame_k (cs : List Conf) (h : ∀ c ∈ cs, XyzOk c) (t : Text)
    (ht : writeTraj cs = .ok t) (k : Nat) :
    (∀ hk : k < cs.length, ∃ o, writeConf cs[k] = .ok o ∧ extractFrame k t = .ok (some o)) ∧
    (cs.length ≤ k → extractFrame k t = .ok none) :=
  ⟨fun hk => Infretis.Codec.extract_frame_k cs h t ht k hk,
   fun hk => Infretis.Codec.extract_frame_beyond cs h t ht k hk⟩

example : ∀ c ∈ [exConf, exConf2, exConf], XyzOk c := Infretis.Codec.exTraj_ok

/-- **reverse_only_negates_vel (xyz).**  The reversed file is exactly the file of the same
    configuration with every velocity component sign-flipped (box, positions, names untouched);
    reversing twice restores the original bytes. -/
theorem xyz_reverse_only_negates_vel (c : Conf) (h : XyzOk c) (t : Text) (hw : writeConf c = .ok t) :
    (∃ t', reverseXyz t = .ok t' ∧ writeConf (revConf c) = .ok t' ∧
      readConfiguration t' = .ok (revConf c)) ∧
    (∃ t', reverseXyz t = .ok t' ∧ reverseXyz t' = .ok t) :=
  ⟨Infretis.Codec.xyz_reverse_only_negates_vel c h t hw, Infretis.Codec.xyz_reverse_twice c h t hw⟩

/-- **reverse_only_negates_vel (.g96)**, also requiring that the negated velocities fit -/
theorem g96_reverse_only_negates_vel (raw : G96Raw) (xyz vel : List V3) (box : List Dec)
    (h : G96Ok raw xyz vel box) (hn : ∀ v ∈ vel, Fit3 v.negate) (t : Text)
    (hw : writeG96 raw xyz (some vel) (some box) = .ok t) :
    ∃ t', reverseG96 t = .ok t' ∧
      readG96 t' = .ok ⟨rawAfter raw box, xyz, vel.map V3.negate, some box⟩ ∧
      reverseG96 t' = .ok t :=
  Infretis.Codec.g96_reverse_only_negates_vel raw xyz vel box h hn t hw

end Codec

/-! ## 5. `.lammpstrj` and the TRR byte layout

LAMMPS numbers are numpy `str()` tokens, carried as opaque tokens (`Num`, `negate` toggles the
sign).  TRR: IEEE decoding is outside the model; a decoded real is its field bytes normalised
to big-endian order, so "decodes identically" = "the same field bytes are selected". -/
section Lmp
open Infretis.Lmp

/-- sorting by id is a permutation, sorted, and with distinct ids the unique strictly increasing
    arrangement (independent of the algorithm behind `np.argsort`) -/
theorem lmp_sort_perm_sorted (atoms : List Atom) :
    (sortAtoms atoms).Perm atoms ∧ SortedById (sortAtoms atoms) ∧
    (DistinctIds atoms →
      StrictById (sortAtoms atoms) ∧ ∀ r : List Atom, r.Perm atoms → StrictById r → r = sortAtoms atoms) :=
  Infretis.Lmp.lmp_sort_perm_sorted atoms

/-- **read_write_roundtrip (.lammpstrj)** for any `n ≥ 2` atoms in any id ordering -/
theorem lmp_read_write_roundtrip (atoms : List Atom) (b : List (List Num))
    (hn : 2 ≤ atoms.length) (hat : AtomsOK atoms) (hb : BoxOK b) (hd : DistinctIds atoms) :
    readFrame (writeFrame { atoms := atoms, box := some b }) 0 atoms.length
        = .ok { atoms := sortAtoms atoms, box := some b }
    ∧ (sortAtoms atoms).Perm atoms
    ∧ SortedById (sortAtoms atoms)
    ∧ (SortedById atoms →
        readFrame (writeFrame { atoms := atoms, box := some b }) 0 atoms.length
          = .ok { atoms := atoms, box := some b }) :=
  Infretis.Lmp.lmp_read_write_roundtrip atoms b hn hat hb hd

example : 2 ≤ exAtoms.length ∧ AtomsOK exAtoms ∧ BoxOK exBox ∧ DistinctIds exAtoms := Infretis.Lmp.exAtoms_ok

/-- the property's own scope: one atom → IndexError; written without box → ValueError -/
theorem lmp_out_of_scope (a : Atom) (t : List Atom) (b : List (List Num)) (ha : AtomsOK (a :: t))
    (hb : BoxOK b) (n : Nat) :
    readFrame (writeFrame { atoms := [a], box := some b }) 0 1 = .error .index ∧
    readFrame (writeFrame { atoms := a :: t, box := none }) 0 n = .error .value :=
  ⟨Infretis.Lmp.lmp_single_atom_index_error a b (ha a (List.mem_cons_self)) hb,
   Infretis.Lmp.lmp_no_box_value_error a t ha n⟩

/-- **extract_frame_k (.lammpstrj)** -/
theorem lmp_extract_frame_k (cs : List Conf) (n k : Nat) (hn : 2 ≤ n)
    (hcs : ∀ c ∈ cs, FrameOK n c) (hk : k < cs.length) :
    readFrame (writeFrames cs) (k : Int) n = .ok (sortConf cs[k])
    ∧ extractFrame (writeFrames cs) (k : Int) n = .ok (writeFrame (sortConf cs[k]))
    ∧ readFrame (writeFrame (sortConf cs[k])) 0 n = .ok (sortConf cs[k]) :=
  Infretis.Lmp.lmp_extract_frame_k cs n k hn hcs hk

/-- **reverse_only_negates_vel (.lammpstrj)** -/
theorem lmp_reverse_only_negates_vel (c : Conf) (n : Nat) (hn : 2 ≤ n) (hc : FrameOK n c) :
    reverseVel (writeFrame c) n = .ok (writeFrame (negVel (sortConf c)))
    ∧ (negVel (sortConf c)).box = c.box
    ∧ (negVel (sortConf c)).atoms.map (fun a => (a.id, a.typ, a.pos))
        = (sortAtoms c.atoms).map (fun a => (a.id, a.typ, a.pos))
    ∧ (negVel (sortConf c)).atoms.map (fun a => a.vel) = (sortAtoms c.atoms).map (fun a => a.vel.map Num.negate)
    ∧ (∀ out, reverseVel (writeFrame c) n = .ok out → reverseVel out n = .ok (writeFrame (sortConf c))) :=
  Infretis.Lmp.lmp_reverse_only_negates_vel c n hn hc

end Lmp

section Trr
open Infretis.Trr

/-- **trr_decode_endian_precision.**  For every size-consistent logical frame, both byte orders
    and both precisions, the reader returns exactly the frame's header integers and field bytes
    and stops at the end of the frame; in particular the big- and little-endian files of the
    same frame decode to the same values. -/
theorem trr_decode_endian_precision (e : Endian) (w : Nat) (f : LFrame) (h : LOK w f) (rest : Bytes) :
    decodeFrame (encodeFrame e w f ++ rest) = .ok (expectedHeader e w f, expectedData f, rest) :=
  Infretis.Trr.trr_decode_endian_precision e w f h rest

theorem trr_decode_endian_agree (w : Nat) (f : LFrame) (h : LOK w f) (r₁ r₂ : Bytes) :
    ∃ hb hl d, decodeFrame (encodeFrame .big w f ++ r₁) = .ok (hb, d, r₁)
      ∧ decodeFrame (encodeFrame .little w f ++ r₂) = .ok (hl, d, r₂)
      ∧ hb.sz = hl.sz ∧ hb.time = hl.time ∧ hb.lambda = hl.lambda ∧ hb.double = hl.double
      ∧ hb.endian = .big ∧ hl.endian = .little :=
  Infretis.Trr.trr_decode_endian_agree w f h r₁ r₂

/-- **extract_frame_k (TRR)**: frames of mixed byte order and precision -/
theorem trr_frame_k (frames : List (Endian × Nat × LFrame)) (hall : ∀ x ∈ frames, LOK x.2.1 x.2.2) (k : Nat) :
    (∀ hk : k < frames.length, readTrrFrame (encodeFrames frames) (k : Int)
        = .ok (some (expectedHeader frames[k].1 frames[k].2.1 frames[k].2.2, expectedData frames[k].2.2)))
    ∧ (frames.length ≤ k → readTrrFrame (encodeFrames frames) (k : Int) = .ok none) :=
  Infretis.Trr.trr_frame_k frames hall k

/-- `swap_integer` relates the two readings of the same four bytes -/
theorem trr_swap_integer_be_le (a b c d : UInt8) :
    swapInteger (be32 [a, b, c, d] : Nat) = le32 [a, b, c, d]
    ∧ swapInteger (le32 [a, b, c, d] : Nat) = be32 [a, b, c, d] :=
  Infretis.Trr.swap_integer_be_le a b c d

example : decodeFrame (encodeFrame .little 4 exF ++ [9, 9]) = .ok (expectedHeader .little 4 exF, expectedData exF, [9, 9]) :=
  Infretis.Trr.trr_decode_endian_precision .little 4 exF Infretis.Trr.exF_ok [9, 9]

end Trr

/-! ## 6. box matrices: `box_matrix_to_list` (TRR → g96, CP2K cell vectors)

The nine box numbers follow the .g96 convention `xx yy zz xy xz yx yz zx zy` (first letter =
row of the matrix).  The code offers no inverse; `listToMatrix` is the specification's. -/
section Box
open Infretis.Box

/-- **the fixed order**: with `full=True` (what `_extract_frame` and `_propagate_from` use) the
    nine numbers are `m[0,0] m[1,1] m[2,2] m[0,1] m[0,2] m[1,0] m[1,2] m[2,0] m[2,1]` -/
theorem box_component_order (m : M3) :
    boxMatrixToList m true = [m.xx, m.yy, m.zz, m.xy, m.xz, m.yx, m.yz, m.zx, m.zy] :=
  Infretis.Box.boxMatrixToList_full m

/-- **round trip matrix ↔ list for every box shape** (triclinic included): the matrix is
    recovered from its nine numbers, and every nine numbers are the flattening of one matrix -/
theorem box_list_matrix_roundtrip (m : M3) (l : List Int) (h : l.length = 9) :
    listToMatrix (boxMatrixToList m true) = some m ∧
    ∃ m', listToMatrix l = some m' ∧ boxMatrixToList m' true = l := by
  refine ⟨by rw [Infretis.Box.boxMatrixToList_full]; exact Infretis.Box.listToMatrix_g96Order m, ?_⟩
  obtain ⟨m', a, b⟩ := Infretis.Box.g96Order_listToMatrix l h
  exact ⟨m', a, by rw [Infretis.Box.boxMatrixToList_full]; exact b⟩

/-- without `full`: a rectangular box gives its three lengths, a matrix with more than three
    non-zero entries (every non-degenerate triclinic cell) its nine numbers in the same order -/
theorem box_short_and_long (a b c : Int) (m : M3) (hm : 3 < countNonzero m) :
    boxMatrixToList ⟨a, 0, 0, 0, b, 0, 0, 0, c⟩ false = [a, b, c] ∧
    boxMatrixToList m false = [m.xx, m.yy, m.zz, m.xy, m.xz, m.yx, m.yz, m.zx, m.zy] :=
  ⟨(Infretis.Box.short_diag a b c).1, Infretis.Box.long_of_nonzero m false hm⟩

example : boxMatrixToList ⟨1, 2, 3, 4, 5, 6, 7, 8, 9⟩ true = [1, 5, 9, 2, 3, 4, 6, 7, 8] ∧
    cellABC (10, 0, 0) (2, 11, 0) (3, 4, 12) = [10, 11, 12, 2, 3, 0, 4, 0, 0] ∧
    3 < countNonzero ⟨10, 2, 3, 0, 11, 4, 0, 0, 12⟩ := by decide

end Box

end Infretis.C19
