import Infretis.Lemmas.Template
import Infretis.Lemmas.TemplateSubst
/-!
# C19 — configuration, trajectory and input-template codecs are lossless

Property theorems only.  Models:
* `Infretis/Model/Template.lean` — `_modify_input`, `_read_input_settings`, `write_for_run`
* (sections further down) the CP2K section tree, the fixed-point text codecs, lammpstrj / TRR.

All statements are for templates, settings and configurations of any size.
-/
namespace Infretis.C19
open Infretis.Template

/-! ## 1. the mdp-style editor `_modify_input`

`modifyInput s t` is the content of the output file for template content `t` and settings `s`.
The full statements

    mdp_edit_exact      : linesKeep (modifyInput s t) = (linesKeep t).map (editOut s) ++ appended …
    mdp_edit_idempotent : modifyInput s (modifyInput s t) = modifyInput s t

are FALSE of the code as it is: when the template does not end with a newline and a setting has
to be appended, the appended `key = value` is glued to the last line (`…_counterexample`).
They are proved under exactly the guard that excludes this (`EndsNL t`), `…_partial`. -/

/-- **edit_exact (mdp), lines of the output.**  For a template that is empty or ends with a
    newline the output consists of the template's lines, each passed through `editOut`, followed
    by one `key = value` line per setting whose key is no keyword of the template. -/
theorem mdp_edit_exact_partial (s : Settings) (t : Str) (hE : EndsNL t)
    (hk : ∀ kv ∈ s, '\n' ∉ kv.1) (hv : ∀ kv ∈ s, '\n' ∉ kv.2) :
    linesKeep (modifyInput s t)
      = (linesKeep t).map (editOut s) ++ appended s (writtenKeys (linesKeep t)) := by
  unfold modifyInput
  rw [linesKeep_flatten _ (modifyLines_proper hk hv _ (linesKeep_proper t hE))]
  rfl

/-- keys that were not requested keep their lines (also lines without '=': comments, blanks) -/
theorem mdp_unrequested_kept (s : Settings) (l : Str)
    (h : ∀ kw, matchKey l = some kw → strip kw ∉ keys s) : editOut s l = l :=
  editOut_unrequested s l h

/-- requested keys get the value: the text before '=' is kept verbatim, the rest of the line
    (old value, trailing comment) is replaced by ` value\n` -/
theorem mdp_requested_set (s : Settings) (l kw v : Str)
    (hm : matchKey l = some kw) (hv : lookup s (strip kw) = some v) :
    editOut s l = kw ++ ['='] ++ [' '] ++ v ++ ['\n'] := by
  rw [editOut_requested s l kw v hm hv]; simp [setLine]

/-- exactly the settings whose key is not met in the file are appended, as `key = value\n` -/
theorem mdp_appended_exact (s : Settings) (w : List Str) (l : Str) :
    l ∈ appended s w ↔ ∃ k v, (k, v) ∈ s ∧ k ∉ w ∧ l = k ++ [' ', '=', ' '] ++ v ++ ['\n'] := by
  constructor
  · intro h
    obtain ⟨k, v, a, b, c⟩ := appended_mem h
    exact ⟨k, v, a, b, by simp [c, newLine]⟩
  · rintro ⟨k, v, a, b, rfl⟩
    simp only [appended, List.mem_filterMap]
    exact ⟨(k, v), a, by simp [b, newLine]⟩

example : EndsNL "a = 1\n; c\nb=2 ; x\n".toList ∧
    modifyInput [("b".toList, "3".toList), ("d".toList, "q".toList)] "a = 1\n; c\nb=2 ; x\n".toList
      = "a = 1\n; c\nb= 3\nd = q\n".toList := by decide

/-- the full `mdp_edit_exact` fails without the final newline: the untouched line `b = 2`
    is not a line of the output any more (it became `b = 2c = 3`) -/
theorem mdp_edit_exact_counterexample :
    ∃ (s : Settings) (t : Str), (∀ kv ∈ s, '\n' ∉ kv.1) ∧ (∀ kv ∈ s, '\n' ∉ kv.2) ∧
      linesKeep (modifyInput s t)
        ≠ (linesKeep t).map (editOut s) ++ appended s (writtenKeys (linesKeep t)) :=
  ⟨[("c".toList, "3".toList)], "a = 1\nb = 2".toList, by decide, by decide, by decide⟩

/-- **edit_idempotent (mdp).**  Applying the same settings to the output changes nothing. -/
theorem mdp_edit_idempotent_partial (s : Settings) (t : Str) (hE : EndsNL t) (hs : WFSettings s) :
    modifyInput s (modifyInput s t) = modifyInput s t := by
  unfold modifyInput
  rw [linesKeep_flatten _ (modifyLines_proper hs.key_nonl hs.val_nonl _ (linesKeep_proper t hE))]
  rw [modifyLines_idem hs]

example : EndsNL "a = 1\nb = 2\n".toList ∧ WFSettings [("c".toList, "3".toList)] :=
  ⟨by decide, ⟨by decide, by decide, by decide, by decide, by decide⟩⟩

/-- without the final newline the second application appends the setting once more -/
theorem mdp_edit_idempotent_counterexample :
    ∃ (s : Settings) (t : Str), WFSettings s ∧
      modifyInput s (modifyInput s t) ≠ modifyInput s t :=
  ⟨[("c".toList, "3".toList)], "a = 1\nb = 2".toList,
   ⟨by decide, by decide, by decide, by decide, by decide⟩, by decide⟩

/-! ## 2. LAMMPS `write_for_run`

`writeForRun s t` = (pieces written to the output file, how the call ended).  `occ k L` is the
number of lines of `L` on which the variable `k` is a white-space separated token. -/

/-- **failure modes, exactly.**  The call succeeds iff every variable is a token of exactly one
    line; it raises KeyError (`not_found.pop` on an already removed key) iff some variable is a
    token of two or more lines; otherwise (some variable on no line) it raises the ValueError. -/
theorem lammps_outcome (s : Settings) (t : Str) (hnd : (keys s).Nodup) :
    ((writeForRun s t).err = none ↔ ∀ k ∈ keys s, occ k (linesKeep t) = 1) ∧
    ((writeForRun s t).err = some .key ↔ ∃ k ∈ keys s, occ k (linesKeep t) ≥ 2) ∧
    ((writeForRun s t).err = some .value ↔
        (∀ k ∈ keys s, occ k (linesKeep t) ≤ 1) ∧ ∃ k ∈ keys s, occ k (linesKeep t) = 0) := by
  obtain ⟨h1, h2, -, -⟩ := wfrLines_spec s hnd (linesKeep t) (keys s) [] hnd (fun _ h => h)
  have q : ∀ k ∈ keys s, quota (keys s) k = 1 := fun k hk => by simp [quota, hk]
  have a : (writeForRun s t).err = none ↔ ∀ k ∈ keys s, occ k (linesKeep t) = 1 := by
    unfold writeForRun; rw [h1]
    exact ⟨fun h k hk => by rw [h k hk, q k hk], fun h k hk => by rw [h k hk, q k hk]⟩
  have b : (writeForRun s t).err = some .key ↔ ∃ k ∈ keys s, occ k (linesKeep t) ≥ 2 := by
    unfold writeForRun; rw [h2]
    exact ⟨fun ⟨k, hk, h⟩ => ⟨k, hk, by rw [q k hk] at h; omega⟩,
           fun ⟨k, hk, h⟩ => ⟨k, hk, by rw [q k hk]; omega⟩⟩
  refine ⟨a, b, ?_⟩
  constructor
  · intro h
    have na : ¬ ∀ k ∈ keys s, occ k (linesKeep t) = 1 := fun h' => by
      rw [a.2 h'] at h; cases h
    have nb : ¬ ∃ k ∈ keys s, occ k (linesKeep t) ≥ 2 := fun h' => by
      rw [b.2 h'] at h; cases h
    have hle : ∀ k ∈ keys s, occ k (linesKeep t) ≤ 1 := fun k hk =>
      Nat.le_of_not_lt (fun hlt => nb ⟨k, hk, hlt⟩)
    refine ⟨hle, ?_⟩
    exact Classical.byContradiction fun hne => na (fun k hk => by
      have h1 := hle k hk
      have h0 : occ k (linesKeep t) ≠ 0 := fun h0 => hne ⟨k, hk, h0⟩
      omega)
  · intro ⟨hle, k, hk, h0⟩
    cases he : (writeForRun s t).err with
    | none => have := a.1 he k hk; omega
    | some e =>
      cases e with
      | value => rfl
      | key =>
        obtain ⟨k', hk', h2⟩ := b.1 he
        have := hle k' hk'; omega

example : (keys [("infretis_x".toList, "5".toList)]).Nodup ∧
    occ "infretis_x".toList (linesKeep "variable a equal infretis_x\nrun 1\n".toList) = 1 := by decide

/-- **edit_exact (LAMMPS).**  Unless the KeyError is raised, the output has one piece per
    template line: the line with every variable that is one of its tokens substring-replaced
    (`substOf`), and a line none of whose tokens is a variable is copied unchanged.  When the
    KeyError is raised, the output file holds the edited lines before the offending one. -/
theorem lammps_edit_exact (s : Settings) (t : Str) (hnd : (keys s).Nodup) :
    ((writeForRun s t).err ≠ some .key →
        (writeForRun s t).written = (linesKeep t).map (substOf s)) ∧
    (∃ j, j ≤ (linesKeep t).length ∧
        (writeForRun s t).written = ((linesKeep t).take j).map (substOf s)) ∧
    (∀ l, (∀ k ∈ keys s, k ∉ splitWS l) → substOf s l = l) := by
  obtain ⟨-, -, h3, j, hj, h4⟩ := wfrLines_spec s hnd (linesKeep t) (keys s) [] hnd (fun _ h => h)
  refine ⟨fun h => by simpa [writeForRun] using h3 h, ⟨j, hj, by simpa [writeForRun] using h4⟩, ?_⟩
  intro l h
  exact substLine_untouched _ s l h

/-- a single requested variable: every occurrence on a line where it is a token is replaced -/
theorem lammps_requested_set (k v l : Str) (h : k ∈ splitWS l) :
    substOf [(k, v)] l = replaceAll k v l := by
  simp [substOf, substLine, h]

example : writeForRun [("infretis_x".toList, "5".toList)] "variable a equal infretis_x\nrun 1\n".toList
    = { written := ["variable a equal 5\n".toList, "run 1\n".toList], err := none } := by decide

/-- The full statement "if every variable of `s` occurs in the template, the edit succeeds and
    every line is edited" is FALSE of the code as it is: a variable that is a token of two
    lines makes `not_found.pop(var)` raise KeyError on the second line, after the first lines
    have been written.  (signature C19:lammps:variable-on-two-lines) -/
theorem lammps_edit_total_counterexample :
    ∃ (s : Settings) (t : Str), (keys s).Nodup ∧ (∀ k ∈ keys s, occ k (linesKeep t) ≥ 1) ∧
      writeForRun s t = { written := ["variable a equal 5\n".toList], err := some .key } :=
  ⟨[("infretis_x".toList, "5".toList)], "variable a equal infretis_x\nrun infretis_x\n".toList,
   by decide, by decide, by decide⟩

/-- …and it holds under exactly the guard that excludes the defect -/
theorem lammps_edit_total_partial (s : Settings) (t : Str) (hnd : (keys s).Nodup)
    (h1 : ∀ k ∈ keys s, occ k (linesKeep t) = 1) :
    writeForRun s t = { written := (linesKeep t).map (substOf s), err := none } := by
  have he := ((lammps_outcome s t hnd).1).2 h1
  have hw := (lammps_edit_exact s t hnd).1 (by rw [he]; simp)
  cases h : writeForRun s t with
  | mk w e => rw [h] at he hw; simp only at he hw; rw [he, hw]

/-- **edit_idempotent (LAMMPS), second half: what a further application does.**  On a text in
    which no variable of `s` is a token any more, `write_for_run` copies every byte unchanged
    and then takes its own error branch: ValueError naming the keys of `s` (unless `s` is empty). -/
theorem lammps_apply_without_vars (s : Settings) (t : Str) (hnd : (keys s).Nodup)
    (h0 : ∀ l ∈ linesKeep t, ∀ k ∈ keys s, k ∉ splitWS l) :
    (writeForRun s t).written.flatten = t ∧
    (writeForRun s t).err = if s = [] then none else some .value := by
  have hocc : ∀ k ∈ keys s, occ k (linesKeep t) = 0 := by
    intro k hk
    unfold occ
    rw [List.length_eq_zero_iff, List.filter_eq_nil_iff]
    intro l hl
    simpa using h0 l hl k hk
  obtain ⟨o1, o2, o3⟩ := lammps_outcome s t hnd
  have hnk : (writeForRun s t).err ≠ some .key := by
    intro h; obtain ⟨k, hk, h2⟩ := o2.1 h; have := hocc k hk; omega
  constructor
  · rw [(lammps_edit_exact s t hnd).1 hnk]
    have : (linesKeep t).map (substOf s) = linesKeep t := by
      conv => rhs; rw [← List.map_id (linesKeep t)]
      apply List.map_congr_left
      intro l hl
      exact substLine_untouched _ s l (h0 l hl)
    rw [this, linesKeep_join]
  · cases s with
    | nil => simp only [if_true]; exact o1.2 (by simp [keys])
    | cons kv r =>
      simp only [reduceCtorEq, if_false]
      refine o3.2 ⟨fun k hk => by rw [hocc k hk]; omega, kv.1, by simp [keys], hocc _ (by simp [keys])⟩

example : writeForRun [("infretis_x".toList, "5".toList)] "variable a equal 5\nrun 1\n".toList
    = { written := ["variable a equal 5\n".toList, "run 1\n".toList], err := some .value } := by decide

/-! **edit_idempotent (LAMMPS), first half.**  The full statement

    lammps_no_var_remains : ∀ l ∈ (writeForRun s t).written, ∀ k ∈ keys s, k ∉ splitWS l

is FALSE of the code as it is: a value may itself contain a variable name, and the tokens of a
line are computed once, before the replacements, so such a variable is not substituted
(`lammps_no_var_remains_counterexample`).  It holds under the guards
  G1  no value contains a variable of `s` as a substring,
  G2  a template token that contains a variable as a substring is that variable
(`lammps_no_var_remains_partial`; the proof is the token-boundary theory of `str.replace` in
`Lemmas/TemplateSubst.lean`). -/

theorem lammps_no_var_remains_counterexample :
    ∃ (s : Settings) (t : Str), (keys s).Nodup ∧ (writeForRun s t).err = none ∧
      ∃ l ∈ (writeForRun s t).written, ∃ k ∈ keys s, k ∈ splitWS l :=
  ⟨[("x".toList, "y".toList), ("y".toList, "1".toList)], "x\ny\n".toList, by decide, by decide,
   "y\n".toList, by decide, "y".toList, by decide, by decide⟩

/-- after the edit no variable of `s` is a token of any written line (also of the lines written
    before a KeyError), for values free of variable names (G1) and templates in which variables
    occur only as whole tokens (G2) -/
theorem lammps_no_var_remains_partial (s : Settings) (t : Str) (hnd : (keys s).Nodup)
    (G1 : ∀ kv ∈ s, ∀ k ∈ keys s, ¬ k <:+: kv.2)
    (G2 : ∀ l ∈ linesKeep t, ∀ tok ∈ splitWS l, ∀ k ∈ keys s, k <:+: tok → tok = k) :
    ∀ l ∈ (writeForRun s t).written, ∀ k ∈ keys s, k ∉ splitWS l := by
  intro l hl
  obtain ⟨-, ⟨j, _, hw⟩, -⟩ := lammps_edit_exact s t hnd
  rw [hw] at hl
  obtain ⟨l0, hl0, rfl⟩ := List.mem_map.1 hl
  exact substOf_no_var s l0 G1 (G2 l0 (List.mem_of_mem_take hl0))

example :
    let s : Settings := [("infretis_a".toList, "1.5".toList), ("infretis_b".toList, "/tmp/x y".toList)]
    let t : Str := "variable a index infretis_a # c\nrun infretis_b infretis_b\n".toList
    (keys s).Nodup ∧ (writeForRun s t).written =
      ["variable a index 1.5 # c\n".toList, "run /tmp/x y /tmp/x y\n".toList] := by decide

end Infretis.C19
