import Infretis.Lemmas.Template
import Infretis.Lemmas.TemplateSubst
import Infretis.Lemmas.TemplateNow
import Infretis.Lemmas.TemplateWords
import Infretis.Lemmas.TemplateReSub
import Infretis.Lemmas.TemplateRepaired
import Infretis.Lemmas.TemplateCp2kRepaired
import Infretis.Lemmas.TemplateCp2k
import Infretis.Lemmas.TemplateCp2kMany
import Infretis.Lemmas.TemplateCp2kWitness
import Infretis.Lemmas.TemplateCp2kRoundTrip
import Infretis.Lemmas.CodecFixed
import Infretis.Lemmas.CodecUni
import Infretis.Lemmas.CodecLmp
import Infretis.Lemmas.CodecBox
import Infretis.Lemmas.CodecBoxData
/-!
# C19 — configuration, trajectory and input-template codecs are lossless

Property theorems only.  Models:
* `Infretis/Model/Template.lean` — `_modify_input`, `_read_input_settings`, `write_for_run` (the code after the
  repairs eaf64e1 / f746fff / 48a6c1e; the `…AsIs` and `…Sub` definitions are the code before them, kept as record)
* `Infretis/Model/TemplateCp2k.lean` — the CP2K section-tree editor (`update_cp2k_input` and friends)
* `Infretis/Model/Codec.lean` — decimal fixed point, `.g96` and extended-xyz readers/writers (ASCII white space)
* `Infretis/Model/CodecUni.lean` — the same readers with Python's complete white-space set (`str.isspace`, 29 code
  points); the reader theorems of section 4 are about these
* `Infretis/Model/CodecLmp.lean` — `.lammpstrj` (numbers as opaque numpy tokens) and the TRR byte layout
The proofs live in `Infretis/Lemmas/{Template,TemplateSubst,TemplateCp2k,CodecFixed,CodecLmp}.lean`;
sections 3–5 restate the property theorems proved there.

All statements are for templates, settings and configurations of any size.
-/
namespace Infretis.C19

section Tmpl
open Infretis.Template

/-! ## 1. the mdp-style editor `_modify_input`

`modifyInput s t` is the content of the output file for template content `t` and settings `s`,
for the code as it is now (after the repair eaf64e1: a newline is written before the first
appended setting when the last piece written lacks one).  `modifyInputAsIs` is the code before
the repair, kept as the record of finding C19:mdp:append-after-missing-final-newline
(`mdp_asIs_…_counterexample`). -/

/-- **edit_exact (mdp), full strength.**  For every template (with or without final newline,
    also empty) the lines of the output are: the template's lines each passed through `editOut`;
    and, if some setting's key is no keyword of the template, the last of these lines completed
    with its newline, followed by one `key = value` line per such setting, in dict order.
    Remaining guards: no newline inside a key or a value (otherwise an edited or appended piece
    is not one line and the statement about lines is false). -/
theorem mdp_edit_exact (s : Settings) (t : Str)
    (hk : ∀ kv ∈ s, '\n' ∉ kv.1) (hv : ∀ kv ∈ s, '\n' ∉ kv.2) :
    linesKeep (modifyInput s t) =
      match appended s (writtenKeys (linesKeep t)) with
      | [] => (linesKeep t).map (editOut s)
      | a :: r => closeLast ((linesKeep t).map (editOut s)) ++ a :: r := by
  unfold modifyInput
  rw [modifyLines_flatten s hv _ (linesKeep_lines t),
      linesKeep_flatten_lines _ (outLines_lines s hk hv _ (linesKeep_lines t))]
  rfl

/-- `closeLast` touches only the last line and only by completing its newline -/
theorem mdp_closeLast_spec (l : Str) (ls : List Str) :
    closeLast (ls ++ [l]) = ls ++ [if l.getLast? = some '\n' then l else l ++ ['\n']] := by
  induction ls with
  | nil => simp [closeLast, closeNL]
  | cons a r ih =>
    cases r with
    | nil => simp [closeLast, closeNL]
    | cons b r' =>
      simp only [List.cons_append] at ih ⊢
      simp only [closeLast]
      rw [ih]

/-- keys that were not requested keep their lines (also lines without '=': comments, blanks) -/
theorem mdp_unrequested_kept (s : Settings) (l : Str)
    (h : ∀ kw, matchKey l = some kw → strip kw ∉ keys s) : editOut s l = l :=
  editOut_unrequested s l h

/-- requested keys get the value: the text before '=' is kept verbatim, the rest of the line
    (old value, trailing comment) is replaced by ` value\n` -/
theorem mdp_requested_set (s : Settings) (l kw v : Str)
    (hm : matchKey l = some kw) (hv : lookup s (strip kw) = some v) :
    editOut s l = kw ++ ['='] ++ [' '] ++ v ++ ['\n'] := by
  rw [editOut_requested s l kw v hm hv]; simp [setLine]

/-- exactly the settings whose key is not met in the file are appended, as `key = value\n` -/
theorem mdp_appended_exact (s : Settings) (w : List Str) (l : Str) :
    l ∈ appended s w ↔ ∃ k v, (k, v) ∈ s ∧ k ∉ w ∧ l = k ++ [' ', '=', ' '] ++ v ++ ['\n'] := by
  constructor
  · intro h
    obtain ⟨k, v, a, b, c⟩ := appended_mem h
    exact ⟨k, v, a, b, by simp [c, newLine]⟩
  · rintro ⟨k, v, a, b, rfl⟩
    simp only [appended, List.mem_filterMap]
    exact ⟨(k, v), a, by simp [b, newLine]⟩

example :
    modifyInput [("b".toList, "3".toList), ("d".toList, "q".toList)] "a = 1\n; c\nb=2 ; x".toList
      = "a = 1\n; c\nb= 3\nd = q\n".toList ∧
    modifyInput [("c".toList, "3".toList), ("d".toList, "4".toList)] "a = 1\nb = 2".toList
      = "a = 1\nb = 2\nc = 3\nd = 4\n".toList ∧
    modifyInput [("c".toList, "3".toList)] [] = "c = 3\n".toList := by decide

/-- **edit_idempotent (mdp), full strength in the template**: for EVERY template, applying the
    same settings to the output changes nothing.  Remaining guards (`WFSettings`): the settings
    are a dict (distinct keys); keys could be keywords of a line — no '=', no newline, no outer
    white space (a key violating this is never found again and is appended on every pass);
    values contain no newline. -/
theorem mdp_edit_idempotent (s : Settings) (t : Str) (hs : WFSettings s) :
    modifyInput s (modifyInput s t) = modifyInput s t := by
  have hL := linesKeep_lines t
  have hO := outLines_lines s hs.key_nonl hs.val_nonl _ hL
  unfold modifyInput
  rw [modifyLines_flatten s hs.val_nonl _ hL, linesKeep_flatten_lines _ hO,
      modifyLines_flatten s hs.val_nonl _ hO, outLines_idem hs _ hL]

example : WFSettings [("c".toList, "3".toList)] ∧
    modifyInput [("c".toList, "3".toList)] (modifyInput [("c".toList, "3".toList)] "a = 1\nb = 2".toList)
      = "a = 1\nb = 2\nc = 3\n".toList :=
  ⟨⟨by decide, by decide, by decide, by decide, by decide⟩, by decide⟩

/-- the guards on keys are needed: a key with a trailing blank is appended again on every pass -/
theorem mdp_edit_idempotent_key_guard_counterexample :
    ∃ (s : Settings) (t : Str), modifyInput s (modifyInput s t) ≠ modifyInput s t :=
  ⟨[("c ".toList, "3".toList)], "a = 1\n".toList, by decide⟩

/-- RECORD (code before eaf64e1): without the final newline the untouched line `b = 2` was
    glued to the appended setting (`b = 2c = 3`) -/
theorem mdp_asIs_edit_exact_counterexample :
    ∃ (s : Settings) (t : Str), (∀ kv ∈ s, '\n' ∉ kv.1) ∧ (∀ kv ∈ s, '\n' ∉ kv.2) ∧
      linesKeep (modifyInputAsIs s t)
        ≠ (linesKeep t).map (editOut s) ++ appended s (writtenKeys (linesKeep t)) ∧
      modifyInputAsIs s t = "a = 1\nb = 2c = 3\n".toList :=
  ⟨[("c".toList, "3".toList)], "a = 1\nb = 2".toList, by decide, by decide, by decide, by decide⟩

/-- RECORD (code before eaf64e1): …and a second application appended the setting once more -/
theorem mdp_asIs_edit_idempotent_counterexample :
    ∃ (s : Settings) (t : Str), WFSettings s ∧
      modifyInputAsIs s (modifyInputAsIs s t) ≠ modifyInputAsIs s t :=
  ⟨[("c".toList, "3".toList)], "a = 1\nb = 2".toList,
   ⟨by decide, by decide, by decide, by decide, by decide⟩, by decide⟩

/-- OPEN finding C19:mdp:dash-underscore-key (known_findings.json; `modifyInput` is the `asIs` variant): the editor compares parameter names
    literally.  GROMACS reads `-` and `_` in a parameter name alike (and the engine itself requests `gen_vel` next to
    `ref-t`): on a template that spells the parameter `gen-vel` the requested `gen_vel` is not edited but appended — the
    output defines the parameter twice and the template's entry keeps its old value.  (The edit is idempotent.) -/
theorem mdp_dash_underscore_counterexample :
    modifyInput [("gen_vel".toList, "no".toList)] "gen-vel = yes\nnsteps = 5\n".toList
      = "gen-vel = yes\nnsteps = 5\ngen_vel = no\n".toList ∧
    readSettings "gen-vel = yes\nnsteps = 5\ngen_vel = no\n".toList
      = [("gen-vel".toList, "yes".toList), ("nsteps".toList, "5".toList), ("gen_vel".toList, "no".toList)] ∧
    modifyInput [("gen_vel".toList, "no".toList)] "gen-vel = yes\nnsteps = 5\ngen_vel = no\n".toList
      = "gen-vel = yes\nnsteps = 5\ngen_vel = no\n".toList := by decide

/-- **edit_exact (mdp), the REPAIRED variant** (`modifyInputR`, `Model/TemplateRepaired.lean`: names compared up to
    `-`/`_`, the template's own text before '=' kept) — the full statement that `mdp_dash_underscore_counterexample`
    refutes for the code as it is.  For every template and all settings without newlines: the output's lines are the
    template's lines through `editOutR`, followed (last line completed) by exactly the settings whose NORMALISED name is
    no keyword of the template, in dict order; and a requested parameter that the template has under EITHER spelling is
    among the written names (so it is not appended) and its line becomes `keyword= value` with the requested value. -/
theorem mdp_edit_exact_normalised_repaired (s : Settings) (t : Str)
    (hk : ∀ kv ∈ s, '\n' ∉ kv.1) (hv : ∀ kv ∈ s, '\n' ∉ kv.2) :
    (linesKeep (modifyInputR s t) =
      match appendedR s (writtenKeysR (linesKeep t)) with
      | [] => (linesKeep t).map (editOutR s)
      | a :: r => closeLast ((linesKeep t).map (editOutR s)) ++ a :: r) ∧
    appendedR s (writtenKeysR (linesKeep t)) =
      (s.filter (fun kv => decide (normKey kv.1 ∉ writtenKeysR (linesKeep t)))).map (fun kv => newLine kv.1 kv.2) ∧
    (∀ l ∈ linesKeep t, ∀ kw, matchKey l = some kw → ∀ kv ∈ s, normKey kv.1 = normKey (strip kw) →
      normKey kv.1 ∈ writtenKeysR (linesKeep t) ∧ ∃ v, lookupN s (strip kw) = some v ∧ editOutR s l = setLine kw v) := by
  refine ⟨by rw [modifyInputR_lines s t hk hv]; rfl, appendedR_exact s _, ?_⟩
  intro l hl kw hm kv hkv hn
  refine ⟨by rw [hn]; exact writtenKeysR_of_line hl hm, ?_⟩
  have hs := lookupN_isSome_of_mem kv hkv hn
  cases hv' : lookupN s (strip kw) with
  | none => simp [hv'] at hs
  | some v => exact ⟨v, rfl, editOutR_requested s l kw v hm hv'⟩

/-- the repaired variant on the witness of the finding: the template's `gen-vel` line gets the value, nothing is appended;
    on templates that spell the names as requested the two variants coincide -/
example :
    modifyInputR [("gen_vel".toList, "no".toList), ("nsteps".toList, "7".toList)] "gen-vel = yes\nnsteps = 5\n".toList
      = "gen-vel = no\nnsteps = 7\n".toList ∧
    modifyInputR [("gen_vel".toList, "no".toList)] "gen_vel = yes\nref-t = 1\n".toList
      = modifyInput [("gen_vel".toList, "no".toList)] "gen_vel = yes\nref-t = 1\n".toList ∧
    modifyInputR [("c".toList, "3".toList)] "a = 1\nb = 2".toList = "a = 1\nb = 2\nc = 3\n".toList := by decide

/-! ## 2. LAMMPS `write_for_run`

`writeForRun s t` = (pieces written to the output file, how the call ended), for the code as it is now
(after the repairs f746fff: `not_found.pop(var, None)`, and 48a6c1e: a variable is replaced only where it is a
whole word, `re.sub(r"(?<!\S)" + re.escape(var) + r"(?!\S)", value, line)`).  `substOfW s l` is what the inner
loop makes of the line `l`; `wordsLine s l` / `wordsText s t` is the SPECIFICATION "exactly the words that are
requested variables become their values, every other character is kept" (`Model/Template.lean`);
`occ k L` is the number of lines of `L` on which the variable `k` is a white-space separated word.
White space is Python's `str.isspace` (29 code points, ASCII and not).  The records of the code before the
two repairs are in section 2b. -/

/-- **edit_total (LAMMPS), full strength.**  Every template line is written, passed through the per-line
    function `substOfW`; the call never raises KeyError; it ends without error iff every variable is a word
    of at least one line, and with the ValueError iff some variable is a word of no line.  Only guard: the
    settings are a dict (distinct keys). -/
theorem lammps_edit_total (s : Settings) (t : Str) (hnd : (keys s).Nodup) :
    (writeForRun s t).written = (linesKeep t).map (substOfW s) ∧
    ((writeForRun s t).err = none ↔ ∀ k ∈ keys s, 1 ≤ occ k (linesKeep t)) ∧
    ((writeForRun s t).err = some .value ↔ ∃ k ∈ keys s, occ k (linesKeep t) = 0) ∧
    (writeForRun s t).err ≠ some .key := by
  obtain ⟨a, b, c⟩ := wfrLines_spec' s (linesKeep t) (keys s) [] hnd (fun _ h => h)
  refine ⟨by simpa [writeForRun] using a, by simpa [writeForRun] using b,
          by simpa [writeForRun] using c, ?_⟩
  intro hk
  cases hcase : (writeForRun s t).err with
  | none => rw [hcase] at hk; cases hk
  | some e =>
    cases e with
    | value => rw [hcase] at hk; cases hk
    | key =>
      by_cases hmiss : ∃ k ∈ keys s, occ k (linesKeep t) = 0
      · have := (show (writeForRun s t).err = some .value from by simpa [writeForRun] using c.2 hmiss)
        rw [hcase] at this; cases this
      · have hall : ∀ k ∈ keys s, 1 ≤ occ k (linesKeep t) := by
          intro k hk'
          exact Nat.pos_of_ne_zero (fun h0 => hmiss ⟨k, hk', h0⟩)
        have := (show (writeForRun s t).err = none from by simpa [writeForRun] using b.2 hall)
        rw [hcase] at this; cases this

example : (keys [("infretis_x".toList, "5".toList)]).Nodup ∧
    writeForRun [("infretis_x".toList, "5".toList)] "variable a equal infretis_x\nrun infretis_x\n".toList
    = { written := ["variable a equal 5\n".toList, "run 5\n".toList], err := none } := by decide +kernel

/-- **the per-line function, word by word — no hypothesis at all.**  The line is its leading white space
    followed by (word, white space) pairs (`decomp`); the output keeps every white-space character and replaces
    each word by what the chain of whole-word replacements of the line's variables (`onLine s l`, dict order)
    makes of that word alone.  In particular nothing outside a word changes and words do not interact. -/
theorem lammps_edit_tokenwise (s : Settings) (l : Str) :
    substOfW s l = (decomp l).1 ++ body ((decomp l).2.map (fun tw => (chain (onLine s l) tw.1, tw.2))) :=
  substOfW_tokenwise s l

/-- …and on a single word the replacement is: the value if the word IS the variable, else the word
    (a word that merely contains the variable is kept) -/
theorem lammps_word_replaced_iff_equal (k v t : Str) (hk : k ≠ []) (hkw : ∀ c ∈ k, isSpace c = false)
    (ht : ∀ c ∈ t, isSpace c = false) (hne : t ≠ []) :
    reSubWord k v t = if t = k then v else t :=
  reSubWord_token v hk hkw ht hne

example : reSubWord "infretis_n".toList "7".toList "infretis_name".toList = "infretis_name".toList ∧
    reSubWord "infretis_n".toList "7".toList "infretis_n".toList = "7".toList := by decide +kernel

/-- **edit_exact (LAMMPS): the code against the word-level specification.**  Guard (besides "the settings are a
    dict"): on every line, of two variables that are both words of that line, the LATER one in dict order is no
    word of the EARLIER one's value.  Then the written lines are exactly the template lines with the words that
    are requested variables set to their values — every other character (white space, other words, longer words
    containing a variable name, values with blanks or variable names inside longer words) is kept.
    The guard cannot be dropped (`lammps_edit_words_guard_counterexample`): the substitutions of one line are
    applied one after the other to the CURRENT line, so a value inserted earlier is seen by later variables. -/
theorem lammps_edit_words (s : Settings) (t : Str) (hnd : (keys s).Nodup)
    (G : ∀ l ∈ linesKeep t, (onLine s l).Pairwise (fun a b => b.1 ∉ splitWS a.2)) :
    (writeForRun s t).written = (linesKeep t).map (wordsLine s) ∧
    (writeForRun s t).written.flatten = wordsText s t := by
  have h : (writeForRun s t).written = (linesKeep t).map (wordsLine s) := by
    rw [(lammps_edit_total s t hnd).1]
    apply List.map_congr_left
    intro l hl
    exact substOfW_eq_wordsLine s l (G l hl)
  exact ⟨h, by rw [h]; rfl⟩

/-- the guard of `lammps_edit_words` holds, in particular, when no word of any value is a variable -/
theorem lammps_edit_words_guard_of_values (s : Settings) (t : Str)
    (h : ∀ kv ∈ s, ∀ k ∈ keys s, k ∉ splitWS kv.2) :
    ∀ l ∈ linesKeep t, (onLine s l).Pairwise (fun a b => b.1 ∉ splitWS a.2) := by
  intro l _
  apply pairwise_of_forall
  intro a ha b hb
  exact h a (List.mem_filter.1 ha).1 b.1 (List.mem_map.2 ⟨b, (List.mem_filter.1 hb).1, rfl⟩)

/-- non-vacuity: values with blanks, a value that contains a variable name inside a longer word, a variable
    twice on a line, a longer word containing a variable — guard true, edit = specification -/
example :
    let s : Settings := [("infretis_a".toList, "1.5".toList), ("infretis_b".toList, "/tmp/x y/infretis_a.d".toList)]
    let t : Str := "variable a index infretis_a # infretis_ab\nrun infretis_b\tinfretis_b infretis_a\n".toList
    (keys s).Nodup ∧ (∀ l ∈ linesKeep t, (onLine s l).Pairwise (fun a b => b.1 ∉ splitWS a.2)) ∧
    (writeForRun s t).written =
      ["variable a index 1.5 # infretis_ab\n".toList,
       "run /tmp/x y/infretis_a.d\t/tmp/x y/infretis_a.d 1.5\n".toList] ∧
    (writeForRun s t).written.flatten = wordsText s t := by decide +kernel

/-- **the guard of `lammps_edit_words` is needed**: with `x ↦ y`, `y ↦ 1` the line `x y` becomes `1 1` (the `y`
    inserted for `x` is replaced in turn), word by word it is `y 1`; in the other dict order the same edit is
    exact — the order of the keys matters -/
theorem lammps_edit_words_guard_counterexample :
    ∃ (s s' : Settings) (t : Str), (keys s).Nodup ∧ (writeForRun s t).err = none ∧
      (writeForRun s t).written.flatten = "1 1\n".toList ∧ wordsText s t = "y 1\n".toList ∧
      s' = s.reverse ∧ (writeForRun s' t).written.flatten = wordsText s' t ∧ wordsText s' t = "y 1\n".toList :=
  ⟨[("x".toList, "y".toList), ("y".toList, "1".toList)], [("y".toList, "1".toList), ("x".toList, "y".toList)],
   "x y\n".toList, by decide +kernel, by decide +kernel, by decide +kernel, by decide +kernel, by decide +kernel, by decide +kernel, by decide +kernel⟩

/-- **finding C19:lammps:substring-on-a-requested-line (repaired by 48a6c1e).**  On
    `log my_infretis_seed.log # infretis_seed` with `infretis_seed ↦ 0` the code before the repair
    (`writeForRunSub`) also rewrote the longer word (`my_0.log`), which the word-level specification forbids;
    the code as it is now equals the specification. -/
theorem lammps_edit_words_same_line_counterexample :
    ∃ (s : Settings) (t : Str), (keys s).Nodup ∧
      (writeForRunSub s t).written.flatten = "log my_0.log # 0\n".toList ∧
      (writeForRunSub s t).written.flatten ≠ wordsText s t ∧
      (writeForRun s t).written.flatten = wordsText s t ∧
      wordsText s t = "log my_infretis_seed.log # 0\n".toList ∧ (writeForRun s t).err = none :=
  ⟨[("infretis_seed".toList, "0".toList)], "log my_infretis_seed.log # infretis_seed\n".toList,
   by decide +kernel, by decide +kernel, by decide +kernel, by decide +kernel, by decide +kernel, by decide +kernel⟩

/-- a line none of whose words is a variable is copied unchanged -/
theorem lammps_untouched (s : Settings) (l : Str) (h : ∀ k ∈ keys s, k ∉ splitWS l) :
    substOfW s l = l :=
  substLineW_untouched _ s l h

/-- a single requested variable, any line: exactly the words equal to it are replaced -/
theorem lammps_requested_set (k v l : Str) :
    substOfW [(k, v)] l = wordsLine [(k, v)] l := by
  apply substOfW_eq_wordsLine
  have hsub : (onLine [(k, v)] l).Sublist [(k, v)] := List.filter_sublist
  exact List.Pairwise.sublist hsub (List.pairwise_singleton _ _)

example : substOfW [("a".toList, "1 2".toList)] " a ab\ta".toList = " 1 2 ab\t1 2".toList := by decide +kernel

/-- **edit_idempotent (LAMMPS), second half: what a further application does.**  On a text in
    which no variable of `s` is a word any more, `write_for_run` copies every byte unchanged
    and then takes its own error branch: ValueError naming the keys of `s` (unless `s` is empty). -/
theorem lammps_apply_without_vars (s : Settings) (t : Str) (hnd : (keys s).Nodup)
    (h0 : ∀ l ∈ linesKeep t, ∀ k ∈ keys s, k ∉ splitWS l) :
    (writeForRun s t).written.flatten = t ∧
    (writeForRun s t).err = if s = [] then none else some .value := by
  have hocc : ∀ k ∈ keys s, occ k (linesKeep t) = 0 := by
    intro k hk
    unfold occ
    rw [List.length_eq_zero_iff, List.filter_eq_nil_iff]
    intro l hl
    simpa using h0 l hl k hk
  obtain ⟨o1, o2, o3, -⟩ := lammps_edit_total s t hnd
  constructor
  · rw [o1]
    have : (linesKeep t).map (substOfW s) = linesKeep t := by
      conv => rhs; rw [← List.map_id (linesKeep t)]
      apply List.map_congr_left
      intro l hl
      exact substLineW_untouched _ s l (h0 l hl)
    rw [this, linesKeep_join]
  · cases s with
    | nil => simp only [if_true]; exact o2.2 (by simp [keys])
    | cons kv r =>
      simp only [reduceCtorEq, if_false]
      exact o3.2 ⟨kv.1, by simp [keys], hocc _ (by simp [keys])⟩

example : writeForRun [("infretis_x".toList, "5".toList)] "variable a equal 5\nrun 1\n".toList
    = { written := ["variable a equal 5\n".toList, "run 1\n".toList], err := some .value } := by decide +kernel

/-! **edit_idempotent (LAMMPS), first half.**  The full statement

    lammps_no_var_remains : ∀ l ∈ (writeForRun s t).written, ∀ k ∈ keys s, k ∉ splitWS l

is still FALSE of the code as it is (also after 48a6c1e): a value may have a variable name among its WORDS, and
that word is replaced only if the variable is also a word of the same template line and comes later in dict order
(`lammps_no_var_remains_counterexample`).  It holds under the single guard
  G1  no value that is substituted on a line has a variable of `s` among its words
(`lammps_no_var_remains_partial`).  Compared with the substring version (section 2b) the guard is weaker twice
over: variable names INSIDE longer words of a value are harmless now, and the former guard G2 on the template
(no variable inside a longer template word) is gone. -/

theorem lammps_no_var_remains_counterexample :
    ∃ (s : Settings) (t : Str), (keys s).Nodup ∧ (writeForRun s t).err = none ∧
      ∃ l ∈ (writeForRun s t).written, ∃ k ∈ keys s, k ∈ splitWS l :=
  ⟨[("x".toList, "y".toList), ("y".toList, "1".toList)], "x\ny\n".toList, by decide +kernel, by decide +kernel,
   "y\n".toList, by decide +kernel, "y".toList, by decide +kernel, by decide +kernel⟩

/-- after the edit no variable of `s` is a word of any written line, provided no value substituted on a line has
    a variable among its words (G1).  No condition on the template. -/
theorem lammps_no_var_remains_partial (s : Settings) (t : Str) (hnd : (keys s).Nodup)
    (G1 : ∀ l ∈ linesKeep t, ∀ kv ∈ onLine s l, ∀ k ∈ keys s, k ∉ splitWS kv.2) :
    ∀ l ∈ (writeForRun s t).written, ∀ k ∈ keys s, k ∉ splitWS l := by
  intro l hl
  rw [(lammps_edit_total s t hnd).1] at hl
  obtain ⟨l0, hl0, rfl⟩ := List.mem_map.1 hl
  exact substOfW_no_var s l0 (G1 l0 hl0)

/-- the guard of the substring version (no value CONTAINS a variable) implies G1 -/
theorem lammps_no_var_remains_guard_of_substring_free (s : Settings) (t : Str)
    (h : ∀ kv ∈ s, ∀ k ∈ keys s, ¬ k <:+: kv.2) :
    ∀ l ∈ linesKeep t, ∀ kv ∈ onLine s l, ∀ k ∈ keys s, k ∉ splitWS kv.2 :=
  fun _ _ kv hkv k hk hm => h kv (List.mem_filter.1 hkv).1 k hk (splitWS_mem_infix hm)

/-- G1 is satisfiable together with a successful edit in which a value contains a variable name inside a longer
    word and the template contains a variable inside a longer word (both excluded by the old guards) -/
example :
    let s : Settings := [("$a".toList, "x$a.d q".toList)]
    let t : Str := "v $a my$a\n".toList
    (keys s).Nodup ∧ (∀ l ∈ linesKeep t, ∀ kv ∈ onLine s l, ∀ k ∈ keys s, k ∉ splitWS kv.2) ∧
    (writeForRun s t) = { written := ["v x$a.d q my$a\n".toList], err := none } := by decide +kernel

/-! ## 2b. RECORD — LAMMPS `write_for_run` before 48a6c1e (substring `str.replace`)

Everything in this section is about `writeForRunSub` (the code between f746fff and 48a6c1e: the line is
selected when the variable is one of its words, then `line.replace(var, value)` rewrites every occurrence,
also inside longer words — finding C19:lammps:substring-on-a-requested-line, repaired by 48a6c1e) and
`writeForRunAsIs` (the code before f746fff, finding C19:lammps:variable-on-two-lines).  The theorems are the
ones proved about the code when it was current; they remain true of these definitions and are kept so that
the tie can name a regression by its old signature (driver ops `wfrS`, `wfrA`). -/

/-- RECORD (substring version): **edit_total / edit_exact.**  Every template line is written, with
    every variable that is one of its tokens substring-replaced (`substOf`); the call never
    raises KeyError; it ends without error iff every variable is a token of at least one line,
    and with the ValueError iff some variable is a token of no line.  Only guard: the settings
    are a dict (distinct keys). -/
theorem lammps_sub_edit_total (s : Settings) (t : Str) (hnd : (keys s).Nodup) :
    (writeForRunSub s t).written = (linesKeep t).map (substOf s) ∧
    ((writeForRunSub s t).err = none ↔ ∀ k ∈ keys s, 1 ≤ occ k (linesKeep t)) ∧
    ((writeForRunSub s t).err = some .value ↔ ∃ k ∈ keys s, occ k (linesKeep t) = 0) ∧
    (writeForRunSub s t).err ≠ some .key := by
  obtain ⟨a, b, c⟩ := wfrLinesSub_spec' s (linesKeep t) (keys s) [] hnd (fun _ h => h)
  refine ⟨by simpa [writeForRunSub] using a, by simpa [writeForRunSub] using b,
          by simpa [writeForRunSub] using c, ?_⟩
  intro hk
  cases hcase : (writeForRunSub s t).err with
  | none => rw [hcase] at hk; cases hk
  | some e =>
    cases e with
    | value => rw [hcase] at hk; cases hk
    | key =>
      -- the error is `none` or `value`: decide by whether a variable is missing
      by_cases hmiss : ∃ k ∈ keys s, occ k (linesKeep t) = 0
      · have := (show (writeForRunSub s t).err = some .value from by simpa [writeForRunSub] using c.2 hmiss)
        rw [hcase] at this; cases this
      · have hall : ∀ k ∈ keys s, 1 ≤ occ k (linesKeep t) := by
          intro k hk'
          exact Nat.pos_of_ne_zero (fun h0 => hmiss ⟨k, hk', h0⟩)
        have := (show (writeForRunSub s t).err = none from by simpa [writeForRunSub] using b.2 hall)
        rw [hcase] at this; cases this

/-- RECORD (substring version): a line none of whose tokens is a variable is copied unchanged -/
theorem lammps_sub_untouched (s : Settings) (l : Str) (h : ∀ k ∈ keys s, k ∉ splitWS l) :
    substOf s l = l :=
  substLine_untouched _ s l h

/-- RECORD (substring version): a single requested variable: every occurrence (also inside longer words) on a
    line where it is a token is replaced -/
theorem lammps_sub_requested_set (k v l : Str) (h : k ∈ splitWS l) :
    substOf [(k, v)] l = replaceAll k v l := by
  simp [substOf, substLine, h]

example : (keys [("infretis_x".toList, "5".toList)]).Nodup ∧
    writeForRunSub [("infretis_x".toList, "5".toList)] "variable a equal infretis_x\nrun infretis_x\n".toList
    = { written := ["variable a equal 5\n".toList, "run 5\n".toList], err := none } := by decide +kernel

/-- RECORD (code before f746fff): a variable that is a token of two lines made
    `not_found.pop(var)` raise KeyError on the second line, after the first lines had been
    written (signature C19:lammps:variable-on-two-lines) -/
theorem lammps_asIs_edit_total_counterexample :
    ∃ (s : Settings) (t : Str), (keys s).Nodup ∧ (∀ k ∈ keys s, occ k (linesKeep t) ≥ 1) ∧
      writeForRunAsIs s t = { written := ["variable a equal 5\n".toList], err := some .key } :=
  ⟨[("infretis_x".toList, "5".toList)], "variable a equal infretis_x\nrun infretis_x\n".toList,
   by decide +kernel, by decide +kernel, by decide +kernel⟩

/-- RECORD: the failure modes of the code before f746fff, exactly (success iff every variable
    on exactly one line; KeyError iff some variable on two or more lines) -/
theorem lammps_asIs_outcome (s : Settings) (t : Str) (hnd : (keys s).Nodup) :
    ((writeForRunAsIs s t).err = none ↔ ∀ k ∈ keys s, occ k (linesKeep t) = 1) ∧
    ((writeForRunAsIs s t).err = some .key ↔ ∃ k ∈ keys s, occ k (linesKeep t) ≥ 2) := by
  obtain ⟨h1, h2, -, -⟩ := wfrLinesAsIs_spec s hnd (linesKeep t) (keys s) [] hnd (fun _ h => h)
  have q : ∀ k ∈ keys s, quota (keys s) k = 1 := fun k hk => by simp [quota, hk]
  constructor
  · unfold writeForRunAsIs; rw [h1]
    exact ⟨fun h k hk => by rw [h k hk, q k hk], fun h k hk => by rw [h k hk, q k hk]⟩
  · unfold writeForRunAsIs; rw [h2]
    exact ⟨fun ⟨k, hk, h⟩ => ⟨k, hk, by rw [q k hk] at h; omega⟩,
           fun ⟨k, hk, h⟩ => ⟨k, hk, by rw [q k hk]; omega⟩⟩

/-- RECORD (substring version): **edit_idempotent, second half: what a further application does.**  On a text in
    which no variable of `s` is a token any more, `write_for_run` copies every byte unchanged
    and then takes its own error branch: ValueError naming the keys of `s` (unless `s` is empty). -/
theorem lammps_sub_apply_without_vars (s : Settings) (t : Str) (hnd : (keys s).Nodup)
    (h0 : ∀ l ∈ linesKeep t, ∀ k ∈ keys s, k ∉ splitWS l) :
    (writeForRunSub s t).written.flatten = t ∧
    (writeForRunSub s t).err = if s = [] then none else some .value := by
  have hocc : ∀ k ∈ keys s, occ k (linesKeep t) = 0 := by
    intro k hk
    unfold occ
    rw [List.length_eq_zero_iff, List.filter_eq_nil_iff]
    intro l hl
    simpa using h0 l hl k hk
  obtain ⟨o1, o2, o3, -⟩ := lammps_sub_edit_total s t hnd
  constructor
  · rw [o1]
    have : (linesKeep t).map (substOf s) = linesKeep t := by
      conv => rhs; rw [← List.map_id (linesKeep t)]
      apply List.map_congr_left
      intro l hl
      exact substLine_untouched _ s l (h0 l hl)
    rw [this, linesKeep_join]
  · cases s with
    | nil => simp only [if_true]; exact o2.2 (by simp [keys])
    | cons kv r =>
      simp only [reduceCtorEq, if_false]
      exact o3.2 ⟨kv.1, by simp [keys], hocc _ (by simp [keys])⟩

example : writeForRunSub [("infretis_x".toList, "5".toList)] "variable a equal 5\nrun 1\n".toList
    = { written := ["variable a equal 5\n".toList, "run 1\n".toList], err := some .value } := by decide +kernel

/-! RECORD (substring version): **edit_idempotent, first half.**  The full statement

    lammps_sub_no_var_remains : ∀ l ∈ (writeForRunSub s t).written, ∀ k ∈ keys s, k ∉ splitWS l

was FALSE of the substring version: a value may itself contain a variable name, and the tokens of a
line are computed once, before the replacements, so such a variable is not substituted
(`lammps_sub_no_var_remains_counterexample`).  It holds under the guards
  G1  no value contains a variable of `s` as a substring,
  G2  a template token that contains a variable as a substring is that variable
(`lammps_sub_no_var_remains_partial`; the proof is the token-boundary theory of `str.replace` in
`Lemmas/TemplateSubst.lean`). -/

theorem lammps_sub_no_var_remains_counterexample :
    ∃ (s : Settings) (t : Str), (keys s).Nodup ∧ (writeForRunSub s t).err = none ∧
      ∃ l ∈ (writeForRunSub s t).written, ∃ k ∈ keys s, k ∈ splitWS l :=
  ⟨[("x".toList, "y".toList), ("y".toList, "1".toList)], "x\ny\n".toList, by decide +kernel, by decide +kernel,
   "y\n".toList, by decide +kernel, "y".toList, by decide +kernel, by decide +kernel⟩

/-- RECORD (substring version): after the edit no variable of `s` is a token of any written line, for values free of variable names (G1) and templates in which variables
    occur only as whole tokens (G2) -/
theorem lammps_sub_no_var_remains_partial (s : Settings) (t : Str) (hnd : (keys s).Nodup)
    (G1 : ∀ kv ∈ s, ∀ k ∈ keys s, ¬ k <:+: kv.2)
    (G2 : ∀ l ∈ linesKeep t, ∀ tok ∈ splitWS l, ∀ k ∈ keys s, k <:+: tok → tok = k) :
    ∀ l ∈ (writeForRunSub s t).written, ∀ k ∈ keys s, k ∉ splitWS l := by
  intro l hl
  rw [(lammps_sub_edit_total s t hnd).1] at hl
  obtain ⟨l0, hl0, rfl⟩ := List.mem_map.1 hl
  exact substOf_no_var s l0 G1 (G2 l0 hl0)

example :
    let s : Settings := [("infretis_a".toList, "1.5".toList), ("infretis_b".toList, "/tmp/x y".toList)]
    let t : Str := "variable a index infretis_a # c\nrun infretis_b infretis_b\n".toList
    (keys s).Nodup ∧ (writeForRunSub s t).written =
      ["variable a index 1.5 # c\n".toList, "run /tmp/x y /tmp/x y\n".toList] := by decide +kernel

/-- the guards G1, G2 are satisfiable together with a successful edit -/
example :
    (keys [("$a".toList, "1".toList)]).Nodup ∧
    (∀ kv ∈ [("$a".toList, "1".toList)], ∀ k ∈ keys [("$a".toList, "1".toList)], ¬ k <:+: kv.2) ∧
    (∀ l ∈ linesKeep "v $a\n".toList, ∀ tok ∈ splitWS l, ∀ k ∈ keys [("$a".toList, "1".toList)],
        k <:+: tok → tok = k) := by
  have hl : linesKeep "v $a\n".toList = ["v $a\n".toList] := by decide +kernel
  have hs : splitWS "v $a\n".toList = ["v".toList, "$a".toList] := by decide +kernel
  refine ⟨by decide +kernel, ?_, ?_⟩
  · intro kv hkv k hk hinf
    simp only [List.mem_singleton] at hkv
    simp only [keys, List.map_cons, List.map_nil, List.mem_singleton] at hk
    subst hkv; subst hk
    exact absurd (hinf.subset (by decide +kernel : '$' ∈ "$a".toList)) (by decide +kernel)
  · intro l hl' tok htok k hk hinf
    rw [hl] at hl'
    simp only [List.mem_singleton] at hl'
    subst hl'
    rw [hs] at htok
    simp only [keys, List.map_cons, List.map_nil, List.mem_singleton] at hk
    subst hk
    simp only [List.mem_cons, List.not_mem_nil, or_false] at htok
    rcases htok with rfl | rfl
    · exact absurd (hinf.subset (by decide +kernel : '$' ∈ "$a".toList)) (by decide +kernel)
    · rfl

/-- RECORD (substring version): on a line where the variables that are words of the line occur nowhere else on
    that line (G1: not inside the value of such a variable, G2: not inside a longer word) the substring replacement
    equals the word-level specification -/
theorem lammps_sub_edit_words_partial (s : Settings) (l : Str)
    (G1 : ∀ kv ∈ onLine s l, ∀ k ∈ keys (onLine s l), ¬ k <:+: kv.2)
    (G2 : ∀ tok ∈ splitWS l, ∀ k ∈ keys (onLine s l), k <:+: tok → tok = k) :
    substOf s l = wordsLine s l :=
  substOf_eq_wordsLine s l G1 G2

example : substOf [("a".toList, "1".toList)] "x a # a\n".toList = wordsLine [("a".toList, "1".toList)] "x a # a\n".toList := by
  decide +kernel

end Tmpl

/-! ## 3. the CP2K section-tree editor (`update_cp2k_input`)

Model: arena of nodes + roots + `node_ref` (Python dict semantics), children in insertion order;
all comparisons in the tie are on canonical trees (sibling order immaterial).  The model follows
the code after fix 6e4f7f3 (created sections keep their values, `None` values give the bare
key, section parameters are added once, `replace` leaves unrequested parameters alone); the
four findings it repaired are kept as `cp2k_asIs_…` records about `…AsIs` copies of the old
functions.  Two findings are open (`set_parents`): `cp2k_third_duplicate_bare`,
`cp2k_duplicate_children_counterexample`. -/
section Cp2k
open Infretis.Cp2k

/-- **edit_exact (CP2K), target present.**  Exactly the target node changes: merge law (existing
    keys rewritten in place, new keys appended in dict order, `None` → bare key) or replace law;
    section parameters: untouched when not requested, replaced in replace mode, otherwise the
    requested ones that are not there yet are appended (`newSettings`); every other node, the
    roots and `node_ref` unchanged. -/
theorem cp2k_edit_exact_present (u : Upd) (st : St) (i : Nat) (n : Node)
    (href : dget u.target st.ref = some i) (hn : st.arena[i]? = some n)
    (hmode : u.replace = true ∨ (u.isList = false ∧ ∀ l ∈ n.data, (firstTok l).isSome = true)) :
    ∃ st', updateNode u st = .ok st' ∧ st'.roots = st.roots ∧ st'.ref = st.ref ∧
      st'.arena.length = st.arena.length ∧ (∀ j, j ≠ i → st'.arena[j]? = st.arena[j]?) ∧
      st'.arena[i]? = some { n with
        data := if u.replace then u.data.map (·.1) else mergeSpec u.data n.data,
        settings := newSettings u.settings u.replace n.settings } :=
  Infretis.Cp2k.cp2k_edit_exact_present u st i n href hn hmode

/-- the two loops of `update_node` compute the merge specification -/
theorem cp2k_merge_eq_spec (u : Upd) (old : List Str) (hl : u.isList = false)
    (htok : ∀ l ∈ old, (firstTok l).isSome = true) :
    mergeData u old = .ok (mergeSpec u.data old) :=
  Infretis.Cp2k.mergeData_eq_spec u old hl htok

/-- **edit_exact (CP2K), target absent.**  The new state extends the old one (no existing node
    changes; children lists and roots only grow; keys keep their nodes) and the last node is the
    requested one: requested parameters (or none) and one `KEY value` line (bare `KEY` for a
    `None` value) per requested entry. -/
theorem cp2k_edit_exact_absent (u : Upd) (st : St) (hwf : RefOk st) (habs : dget u.target st.ref = none) :
    ∃ st', updateNode u st = .ok st' ∧ RefOk st' ∧ Ext st st' ∧ st.arena.length < st'.arena.length ∧
      ∃ nn, st'.arena[st'.arena.length - 1]? = some nn ∧ dget u.target st'.ref = some (st'.arena.length - 1) ∧
        (splitArrow u.target).getLast? = some nn.title ∧ nn.settings = u.settings.getD [] ∧
        nn.data = u.data.map fmtEntry ∧ nn.children = [] :=
  Infretis.Cp2k.cp2k_edit_exact_absent u st hwf habs

/-- **edit_idempotent (CP2K), target present — full.**  A second application of the same update
    entry returns the same state.  Remaining guard: none in replace mode or for list data; in
    merge mode with dict data the keys are distinct non-empty white-space-free tokens (`DataOk`).
    Section parameters are unconstrained and `None` values allowed. -/
theorem cp2k_edit_idempotent (u : Upd) (st st1 : St) (i : Nat)
    (href : dget u.target st.ref = some i) (h1 : updateNode u st = .ok st1)
    (hg : u.replace = true ∨ u.isList = true ∨ DataOk u.data) :
    updateNode u st1 = .ok st1 :=
  Infretis.Cp2k.cp2k_edit_idempotent u st st1 i href h1 hg

/-- **edit_idempotent (CP2K), target absent.**  After the section has been created, applying the
    same (merge-mode, dict) entry again changes nothing. -/
theorem cp2k_edit_idempotent_absent (u : Upd) (st st1 : St) (hwf : RefOk st) (habs : dget u.target st.ref = none)
    (hr : u.replace = false) (hl : u.isList = false) (hok : DataOk u.data)
    (h1 : updateNode u st = .ok st1) : updateNode u st1 = .ok st1 :=
  Infretis.Cp2k.cp2k_edit_idempotent_absent u st st1 hwf habs hr hl hok h1

set_option maxRecDepth 4000 in
/-- falsy-but-valid values are values: a section that has to be created keeps `BACKUP_COPIES 0`
    and `FILENAME ` (empty string); only Python `None` (`none`) gives the bare flag.  In the model a
    value reaches `fmtEntry` as `Option Str` = `str(value)`, so `some "0"`, `some ""`,
    `some "False"` are all different from `none`. -/
theorem cp2k_created_section_keeps_falsy_values :
    updateInput tplMD [updZero] [] = .ok "&MOTION\n  &MD\n    STEPS 10\n  &END MD\n  &PRINT\n    &RESTART\n      BACKUP_COPIES 0\n    &END RESTART\n  &END PRINT\n&END MOTION\n".toList ∧
    updateInput tplMD [updEmpty] [] = .ok "&MOTION\n  &MD\n    STEPS 10\n  &END MD\n  &PRINT\n    &RESTART\n      FILENAME \n    &END RESTART\n  &END PRINT\n&END MOTION\n".toList :=
  ⟨Infretis.Cp2k.cp2k_created_section_keeps_zero, Infretis.Cp2k.cp2k_created_section_keeps_empty⟩

example : updZero.data.map fmtEntry = ["BACKUP_COPIES 0".toList] ∧ updEmpty.data.map fmtEntry = ["FILENAME ".toList] ∧
    fmtEntry ("K".toList, some "False".toList) = "K False".toList ∧ fmtEntry ("K".toList, none) = "K".toList ∧
    dget updZero.target stMD.ref = none := by decide

/-- the repaired behaviour on the four former witnesses -/
theorem cp2k_fixed_witnesses :
    (updateInput tplMD [updSettings] [] = .ok "&MOTION\n  &MD X\n    STEPS 10\n  &END MD\n&END MOTION\n".toList ∧
     updateInput "&MOTION\n  &MD X\n    STEPS 10\n  &END MD\n&END MOTION\n".toList [updSettings] [] =
       .ok "&MOTION\n  &MD X\n    STEPS 10\n  &END MD\n&END MOTION\n".toList) ∧
    (updateInput tplMD [updNone] [] = .ok "&MOTION\n  &MD\n    STEPS 10\n    FOO\n  &END MD\n&END MOTION\n".toList ∧
     updateInput "&MOTION\n  &MD\n    STEPS 10\n    FOO\n  &END MD\n&END MOTION\n".toList [updNone] [] =
       .ok "&MOTION\n  &MD\n    STEPS 10\n    FOO\n  &END MD\n&END MOTION\n".toList) ∧
    updateInput tplMD [updEach] [] =
      .ok "&MOTION\n  &MD\n    STEPS 10\n  &END MD\n  &PRINT\n    &EACH\n      MD 5\n    &END EACH\n  &END PRINT\n&END MOTION\n".toList ∧
    updateInput tplKY [updReplace] [] = .ok "&A\n  &K Y\n    W 9\n  &END K\n&END A\n".toList :=
  ⟨Infretis.Cp2k.cp2k_fixed_settings_once, Infretis.Cp2k.cp2k_fixed_none_value,
   Infretis.Cp2k.cp2k_fixed_new_section_keeps_values, Infretis.Cp2k.cp2k_fixed_replace_keeps_settings⟩

/-- RECORD (code before 6e4f7f3, finding C19:cp2k:settings-appended-twice): `&MD X` → `&MD X X` -/
theorem cp2k_asIs_settings_appended_twice :
    updateInputAsIs tplMD [updSettings] [] = .ok "&MOTION\n  &MD X\n    STEPS 10\n  &END MD\n&END MOTION\n".toList ∧
    updateInputAsIs "&MOTION\n  &MD X\n    STEPS 10\n  &END MD\n&END MOTION\n".toList [updSettings] [] =
      .ok "&MOTION\n  &MD X X\n    STEPS 10\n  &END MD\n&END MOTION\n".toList :=
  Infretis.Cp2k.cp2k_asIs_settings_appended_twice

/-- RECORD (finding C19:cp2k:none-value-printed-as-None): `FOO`, then `FOO None` -/
theorem cp2k_asIs_none_value :
    updateInputAsIs tplMD [updNone] [] = .ok "&MOTION\n  &MD\n    STEPS 10\n    FOO\n  &END MD\n&END MOTION\n".toList ∧
    updateInputAsIs "&MOTION\n  &MD\n    STEPS 10\n    FOO\n  &END MD\n&END MOTION\n".toList [updNone] [] =
      .ok "&MOTION\n  &MD\n    STEPS 10\n    FOO None\n  &END MD\n&END MOTION\n".toList :=
  Infretis.Cp2k.cp2k_asIs_none_value

/-- RECORD (finding C19:cp2k:new-section-drops-values): the requested `MD 5` was printed as `MD` -/
theorem cp2k_asIs_new_section_drops_values :
    updateInputAsIs tplMD [updEach] [] =
      .ok "&MOTION\n  &MD\n    STEPS 10\n  &END MD\n  &PRINT\n    &EACH\n      MD\n    &END EACH\n  &END PRINT\n&END MOTION\n".toList :=
  Infretis.Cp2k.cp2k_asIs_new_section_drops_values

/-- RECORD (finding C19:cp2k:replace-wipes-settings): `&K Y` became `&K` -/
theorem cp2k_asIs_replace_wipes_settings :
    updateInputAsIs tplKY [updReplace] [] = .ok "&A\n  &K\n    W 9\n  &END K\n&END A\n".toList :=
  Infretis.Cp2k.cp2k_asIs_replace_wipes_settings

/-- removal is idempotent -/
theorem cp2k_remove_idempotent (target : Str) (st st' : St) (hn : (st.ref.map (·.1)).Nodup)
    (h : removeNode target st = .ok st') : removeNode target st' = .ok st' :=
  Infretis.Cp2k.cp2k_remove_idempotent target st st' hn h

/-- duplicate-title disambiguation, two siblings: both addressable by `path->settings` -/
theorem cp2k_duplicates_pair_partial (arena : List Node) (ref : List (Str × Nat)) (a b : Nat)
    (hp : pathKey arena b = pathKey arena a) (habs : dget (pathKey arena a) ref = none)
    (hs : settingsKey arena a ≠ settingsKey arena b) :
    dget (pathKey arena a ++ arrow ++ settingsKey arena a) (register arena (register arena ref a) b) = some a ∧
    dget (pathKey arena a ++ arrow ++ settingsKey arena b) (register arena (register arena ref a) b) = some b ∧
    dget (pathKey arena a) (register arena (register arena ref a) b) = none :=
  Infretis.Cp2k.register_pair arena ref a b hp habs hs

/-- OPEN finding C19:cp2k:third-duplicate-bare-key: a THIRD sibling with the same title is
    registered under the bare path and cannot be addressed by its settings, for any arena -/
theorem cp2k_third_duplicate_bare (arena : List Node) (ref : List (Str × Nat)) (a b c : Nat)
    (hpb : pathKey arena b = pathKey arena a) (hpc : pathKey arena c = pathKey arena a)
    (habs : dget (pathKey arena a) ref = none)
    (habs3 : dget (pathKey arena a ++ arrow ++ settingsKey arena c) ref = none)
    (hca : settingsKey arena c ≠ settingsKey arena a) (hcb : settingsKey arena c ≠ settingsKey arena b) :
    dget (pathKey arena a) (register arena (register arena (register arena ref a) b) c) = some c ∧
    dget (pathKey arena a ++ arrow ++ settingsKey arena c)
      (register arena (register arena (register arena ref a) b) c) = none :=
  Infretis.Cp2k.register_third_bare arena ref a b c hpb hpc habs habs3 hca hcb

/-- concrete witness: updating `A->K->Z` creates `&Z` inside `&K Z` instead of editing it -/
theorem cp2k_three_duplicates_counterexample :
    (readText tpl3).map (fun rs => rs.toSt.ref) =
      .ok [("A".toList, 0), ("A->K->X".toList, 1), ("A->K->Y".toList, 2), ("A->K".toList, 3)] ∧
    updateInput tpl3 [updZ] [] =
      .ok "&A\n  &K X\n  &END K\n  &K Y\n  &END K\n  &K Z\n    &Z\n      V 9\n    &END Z\n  &END K\n&END A\n".toList :=
  Infretis.Cp2k.cp2k_three_duplicates_counterexample

/-- OPEN finding C19:cp2k:duplicate-children-unaddressable: a child of a disambiguated duplicate
    is registered without the suffix, so `A->K->X->NEW` creates a new `&NEW` on every application -/
theorem cp2k_duplicate_children_counterexample :
    updateInput tpl2 [updThrough] [] = .ok "&A\n  &K X\n    &NEW\n    &END NEW\n  &END K\n  &K Y\n  &END K\n&END A\n".toList ∧
    updateInput "&A\n  &K X\n    &NEW\n    &END NEW\n  &END K\n  &K Y\n  &END K\n&END A\n".toList [updThrough] [] =
      .ok "&A\n  &K X\n    &NEW\n    &END NEW\n    &NEW\n    &END NEW\n  &END K\n  &K Y\n  &END K\n&END A\n".toList :=
  Infretis.Cp2k.cp2k_duplicate_children_counterexample

example : dget updMerge.target stMD.ref = some 1 ∧ stMD.arena[1]?.isSome = true ∧ updMerge.isList = false := by decide

/-! ### white space and case (audit of 2026-09-30)

`isWs` of `Model/TemplateCp2k.lean` is Python's complete `str.isspace` now (it was the ASCII subset): `IsTok`, `DataOk`,
`tokOk`, `dataOk` and with them the guards of `cp2k_edit_idempotent…`, `cp2k_edit_many_idempotent` and
`cp2k_print_read_roundtrip` speak about all 29 white-space code points; `Tree.ok` additionally asks for ASCII section
titles (`asciiStr`: Python's `str.upper()` beyond ASCII is outside the model).  The two records below are the inputs
on which the former (ASCII) guards held and the real code — and the model as it is now — break the conclusion. -/

/-- the data-line guard as it was before the audit: first and last character no ASCII white space -/
def dataOkAscii (l : Str) : Bool :=
  match l with
  | [] => false
  | c :: _ => !isWsAscii c && c != '&' && (match l.getLast? with | some z => !isWsAscii z | none => false) &&
              l.all (fun x => x != '\n' && x != '\r')

/-- RECORD: `cp2k_print_read_roundtrip` under its former ASCII guard was false of the code: the data line
    `STEPS 10<U+00A0>` passed the guard, but `str.strip()` removes the no-break space, so print ∘ parse ∘ print ≠ print.
    The guard as it is now (`okTs`) rejects the forest. -/
theorem cp2k_roundtrip_ascii_guard_counterexample :
    dataOkAscii "STEPS 10\u00a0".toList = true ∧
    okTs [Tree.node "MD".toList [] ["STEPS 10\u00a0".toList] []] = false ∧
    Infretis.Cp2k.unlines (printForest [Tree.node "MD".toList [] ["STEPS 10\u00a0".toList] []]) = "&MD\n  STEPS 10\u00a0\n&END MD\n".toList ∧
    (readText "&MD\n  STEPS 10\u00a0\n&END MD\n".toList).map (fun rs => printText rs.toSt) = .ok "&MD\n  STEPS 10\n&END MD\n".toList := by
  decide +kernel

/-- RECORD: `cp2k_edit_idempotent` under its former guard (keys free of ASCII white space) was false of the code: the
    key `A<U+00A0>B` is two words for `line.split()[0]`, is never found again and is appended on every application.
    `DataOk` as it is now rejects the key. -/
theorem cp2k_idempotent_ascii_guard_counterexample :
    (∀ c ∈ "A\u00a0B".toList, isWsAscii c = false) ∧ ¬ DataOk [("A\u00a0B".toList, some "1".toList)] ∧
    updateInput tplMD [⟨"MOTION->MD".toList, none, false, [("A\u00a0B".toList, some "1".toList)], false⟩] [] =
      .ok "&MOTION\n  &MD\n    STEPS 10\n    A\u00a0B 1\n  &END MD\n&END MOTION\n".toList ∧
    updateInput "&MOTION\n  &MD\n    STEPS 10\n    A\u00a0B 1\n  &END MD\n&END MOTION\n".toList
        [⟨"MOTION->MD".toList, none, false, [("A\u00a0B".toList, some "1".toList)], false⟩] [] =
      .ok "&MOTION\n  &MD\n    STEPS 10\n    A\u00a0B 1\n    A\u00a0B 1\n  &END MD\n&END MOTION\n".toList := by
  refine ⟨by decide, ?_, by decide +kernel, by decide +kernel⟩
  intro h
  have := h.tok ("A\u00a0B".toList, some "1".toList) (by simp)
  exact absurd (this.2 '\u00a0' (by decide)) (by decide)

/-- OPEN finding C19:cp2k:wfrvel:keyword-case (known_findings.json; `updateNode` is the `asIs` variant): `update_node` compares keywords literally
    (`line.split()[0] in data`), CP2K reads keywords case-insensitively (and the reader itself upper-cases section
    names).  On a template that spells the keyword `steps` the requested `STEPS 21` is not written over the entry but
    appended: the section then holds `steps 3` AND `STEPS 21`.  (The edit is idempotent.) -/
theorem cp2k_keyword_case_counterexample :
    updateInput "&MOTION\n  &MD\n    steps 3\n  &END MD\n&END MOTION\n".toList
        [⟨"MOTION->MD".toList, none, false, [("STEPS".toList, some "21".toList)], false⟩] [] =
      .ok "&MOTION\n  &MD\n    steps 3\n    STEPS 21\n  &END MD\n&END MOTION\n".toList ∧
    updateInput "&MOTION\n  &MD\n    steps 3\n    STEPS 21\n  &END MD\n&END MOTION\n".toList
        [⟨"MOTION->MD".toList, none, false, [("STEPS".toList, some "21".toList)], false⟩] [] =
      .ok "&MOTION\n  &MD\n    steps 3\n    STEPS 21\n  &END MD\n&END MOTION\n".toList := by
  constructor <;> decide +kernel

/-- **edit_exact (CP2K), the REPAIRED variant** (`mergeDataR`, `Model/TemplateCp2kRepaired.lean`: keywords compared up
    to case, the rewritten line carries the requested spelling) — the full statement that
    `cp2k_keyword_case_counterexample` refutes for the code as it is.  For dict data whose keywords are distinct up to
    case and single words, and a section every line of which has a first word: the new data are the old lines through
    `editLineR` followed by the requested entries no line named, in dict order; every requested line is in the section;
    and EVERY line of the section whose first word is a requested keyword in any case IS the requested line. -/
theorem cp2k_edit_exact_keyword_case_repaired (u : Upd) (old nd : List Str) (hl : u.isList = false)
    (htok : ∀ l ∈ old, (firstTok l).isSome = true) (hk : KeysCI u.data) (h : mergeDataR u old = .ok nd) :
    nd = old.map (editLineR u.data) ++ (u.data.filter (fun kv => decide (kv.1 ∉ doneR u.data old))).map fmtEntry ∧
    ∀ kv ∈ u.data, fmtEntry kv ∈ nd ∧
      ∀ l ∈ nd, ∀ key, firstTok l = some key → upper key = upper kv.1 → l = fmtEntry kv := by
  refine ⟨?_, repaired_requested_entry u old nd hl htok hk h⟩
  rw [mergeDataR_eq u old hl htok] at h
  exact (Except.ok.inj h).symm

/-- non-vacuity: the `MOTION->MD` entry of `write_for_run_vel` satisfies `KeysCI`; and the repaired variant on the
    witness of the finding — `steps 3` becomes `STEPS 21`, nothing is appended, a second application changes nothing;
    on a template that spells the keyword as requested the two variants coincide -/
example : KeysCI [("STEPS".toList, some "21".toList), ("TIMESTEP".toList, some "0.5".toList)] :=
  ⟨by decide, by intro kv hkv; simp only [List.mem_cons, List.not_mem_nil, or_false] at hkv
                 rcases hkv with rfl | rfl <;> exact ⟨by decide, by decide⟩⟩

theorem cp2k_keyword_case_repaired_witness :
    updateInputR "&MOTION\n  &MD\n    steps 3\n  &END MD\n&END MOTION\n".toList
        [⟨"MOTION->MD".toList, none, false, [("STEPS".toList, some "21".toList)], false⟩] [] =
      .ok "&MOTION\n  &MD\n    STEPS 21\n  &END MD\n&END MOTION\n".toList ∧
    updateInputR "&MOTION\n  &MD\n    STEPS 21\n  &END MD\n&END MOTION\n".toList
        [⟨"MOTION->MD".toList, none, false, [("STEPS".toList, some "21".toList)], false⟩] [] =
      .ok "&MOTION\n  &MD\n    STEPS 21\n  &END MD\n&END MOTION\n".toList ∧
    updateInputR tplMD [updMerge] [] = updateInput tplMD [updMerge] [] := by
  refine ⟨by decide +kernel, by decide +kernel, by decide +kernel⟩

/-! ### the whole update loop of `update_cp2k_input`, and `write_for_run_vel`

`applyUpdates us st` is the loop `for target, value in update.items(): update_node(...)` on the state `st`
(arena of nodes, roots, `node_ref`).  Invariants of a parsed state: `RefOk` (every key names a node of the arena)
and `RefInj` (no two keys name the same node); both are decidable on a concrete state
(`refOk_of_all`, `refInj_of_nodup`) and kept by every `update_node` (`cp2k_edit_many_exact`). -/

/-- **edit_exact (CP2K), the whole loop, any entries.**  `Grow st st' T`: no node of the template is lost or moved
    (title, parent, level kept; children lists and the root list only grow at the end; every key keeps its node;
    keys that are new name nodes that are new), and a node keeps its settings and data unless its index is in
    `T` = the nodes that the targets of the entries name in the template. -/
theorem cp2k_edit_many_exact (us : List Upd) (st st' : St) (hwf : RefOk st) (hinj : RefInj st)
    (h : applyUpdates us st = .ok st') :
    RefOk st' ∧ RefInj st' ∧ Grow st st' (us.filterMap (fun u => dget u.target st.ref)) :=
  Infretis.Cp2k.cp2k_edit_many_exact us st st' hwf hinj h

/-- **edit_idempotent (CP2K), the whole loop.**  Entries with pairwise distinct targets (a dict), each either
    replace-mode with ready lines (list data, or a dict whose values are all `None`) or merge-mode with a dict whose
    keys are distinct single tokens (`Guard`): after the loop every target exists and is a fixed point of its entry
    (`Settled`), whether it existed before or had to be created (with its parents), and a second run of the loop
    returns the very same state. -/
theorem cp2k_edit_many_idempotent (us : List Upd) (st st' : St) (hwf : RefOk st) (hinj : RefInj st)
    (hnd : (us.map (·.target)).Nodup) (hg : ∀ u ∈ us, Guard u) (h : applyUpdates us st = .ok st') :
    (∀ u ∈ us, Settled u st') ∧ applyUpdates us st' = .ok st' :=
  Infretis.Cp2k.cp2k_edit_many_idempotent us st st' hwf hinj hnd hg h

/-- what "settled" gives: in replace mode the section's data ARE the requested lines; in merge mode every requested
    `KEY value` (bare `KEY` for `None`) is a line of the section -/
theorem cp2k_settled_data (u : Upd) (st : St) (hs : Settled u st) :
    (u.replace = true → ∃ i n, dget u.target st.ref = some i ∧ st.arena[i]? = some n ∧ n.data = u.data.map (·.1)) ∧
    (u.replace = false → u.isList = false → DataOk u.data →
      ∃ i n, dget u.target st.ref = some i ∧ st.arena[i]? = some n ∧ ∀ kv ∈ u.data, fmtEntry kv ∈ n.data) :=
  ⟨fun hr => hs.replace_data hr, fun hr hl hok => hs.merge_data hr hl hok⟩

/-- **`write_for_run_vel`** (the edit the CP2K engine makes before every run; `wfrVelUpdates` mirrors the dict it
    builds, `writeForRunVel` the whole function on file contents).  For every parsed state, project name, step
    numbers, print frequency and every list of velocities: if the loop succeeds, a second run of the loop changes
    nothing; the VELOCITY section holds exactly one line `vx vy vz` per atom, in order; GLOBAL holds exactly the three
    requested lines; MD has the requested STEPS (= nsteps·subcycles) and TIMESTEP lines; every node not addressed
    by one of the nine targets keeps its settings and data.  (Numbers are carried as the text Python prints.) -/
theorem cp2k_wfrvel_loop (name timestep posfile : Str) (nsteps subcycles : Int) (pf : Option Int)
    (vel : List (Str × Str × Str)) (st st' : St) (hwf : RefOk st) (hinj : RefInj st)
    (h : applyUpdates (wfrVelUpdates name timestep posfile nsteps subcycles pf vel) st = .ok st') :
    applyUpdates (wfrVelUpdates name timestep posfile nsteps subcycles pf vel) st' = .ok st' ∧
    (∃ i n, dget "FORCE_EVAL->SUBSYS->VELOCITY".toList st'.ref = some i ∧ st'.arena[i]? = some n ∧
      n.data = vel.map velLine) ∧
    (∃ i n, dget "GLOBAL".toList st'.ref = some i ∧ st'.arena[i]? = some n ∧
      n.data = ["PROJECT ".toList ++ name, "RUN_TYPE MD".toList, "PRINT_LEVEL LOW".toList]) ∧
    (∃ i n, dget "MOTION->MD".toList st'.ref = some i ∧ st'.arena[i]? = some n ∧
      ("STEPS".toList ++ [' '] ++ intStr (nsteps * subcycles)) ∈ n.data ∧ ("TIMESTEP".toList ++ [' '] ++ timestep) ∈ n.data) ∧
    Grow st st' ((wfrVelUpdates name timestep posfile nsteps subcycles pf vel).filterMap (fun u => dget u.target st.ref)) :=
  Infretis.Cp2k.wfrVel_loop name timestep posfile nsteps subcycles pf vel st st' hwf hinj h

/-- the entries of `write_for_run_vel` always satisfy the hypotheses of `cp2k_edit_many_idempotent` -/
theorem cp2k_wfrvel_entries_ok (name timestep posfile : Str) (nsteps subcycles : Int) (pf : Option Int)
    (vel : List (Str × Str × Str)) :
    ((wfrVelUpdates name timestep posfile nsteps subcycles pf vel).map (·.target)).Nodup ∧
    ∀ u ∈ wfrVelUpdates name timestep posfile nsteps subcycles pf vel, Guard u :=
  ⟨wfrVel_nodup name timestep posfile nsteps subcycles pf vel, wfrVel_guard name timestep posfile nsteps subcycles pf vel⟩

/-- **print / read round trip over section forests** (the structural induction the tie used to carry alone):
    parse ∘ print = id and print ∘ parse ∘ print = print.  For EVERY forest of `Tree.ok` trees — any number of root
    sections, any depth, any number of children, parameters and data lines; `ok`: the title is one upper-case ASCII token
    not starting with "END", parameters are tokens, data lines are stripped, non-empty, without line breaks and do not
    start with '&' (token / stripped: with respect to Python's complete white-space set; the trees the reader builds
    from every text without a malformed `& END…` header and without non-ASCII section names; the tie checks this
    on every text it reads, op `cp2kspec`) —
    the text `dfs_print` writes is read back into a state whose forest is the same forest, children in the same
    order, and printing that state gives the same text again. -/
theorem cp2k_print_read_roundtrip (ts : List Tree) (hok : okTs ts = true) :
    ∃ rs, readText (unlines (printForest ts)) = .ok rs ∧ toForest rs.arena rs.roots = ts ∧
      printText rs.toSt = unlines (printForest ts) :=
  Infretis.Cp2k.cp2k_read_print_forest ts hok

/-- the arena the reader builds from a printed forest, explicitly: the nodes in preorder (`flats`), children lists
    = the indices of the children, levels = depths, roots = the indices of the root sections -/
theorem cp2k_read_printed_arena (ts : List Tree) (hok : okTs ts = true) :
    readLines RS.init (printForest ts) = .ok ⟨flats none 0 0 ts, childIds 0 ts, none⟩ := by
  have := readLines_printForest ts hok [] []
  simpa [RS.init] using this

example : okTs [.node "MOTION".toList [] ["! c".toList] [.node "MD".toList ["X".toList, "OFF".toList] ["STEPS 10".toList, "TIMESTEP [fs] 0.5".toList] [],
                                                          .node "PRINT".toList [] [] [.node "EACH".toList [] ["MD 1".toList] []]],
                .node "GLOBAL".toList [] ["PROJECT a b".toList] []] = true := by decide

/-- concrete run (kernel-checked): the template `&MOTION / &MD / STEPS 10`, two atoms — every missing section is
    created, STEPS rewritten in place, TIMESTEP appended -/
theorem cp2k_wfrvel_witness :
    writeForRunVel tplMD "md_step".toList "0.25".toList "conf.xyz".toList 7 3 none velRun = .ok outRun :=
  Infretis.Cp2k.wfrVel_run_witness

/-- non-vacuity of the hypotheses: the parsed `tplMD` is well formed -/
example : RefOk stMD ∧ RefInj stMD ∧ (readText tplMD).map RS.toSt = .ok stMD := ⟨stMD_inv.1, stMD_inv.2, by decide⟩


end Cp2k

/-! ## 4. decimal fixed-point text codecs: `.g96` and extended xyz

A number is a sign-magnitude decimal `Dec` (Python floats have a signed zero and
`-1 * vel` produces `-0.0`, printed `-0.000000000`), so the statements are exact to the byte.

White space (audit of 2026-09-30).  The readers are `readXyzFramesU`, `readConfigurationU`, `extractFrameU`,
`reverseXyzU`, `readG96U`, `reverseG96U` of `Model/CodecUni.lean`: the real readers with Python's COMPLETE white-space
set (`str.split()`, `str.strip()`, `float()` of a `str` read as utf-8: 29 code points).  The shared `Model/Codec.lean`
knows the ten ASCII ones only; the reader theorems used to be stated about it and were FALSE of the code on part of
their stated domain — an atom name / title line with a non-ASCII white-space character satisfied the old guards
(`XyzOk`, `G96Ok`) and does not survive the real reader (`xyz_roundtrip_nonascii_space_name_counterexample`,
`g96_roundtrip_nonascii_space_title_counterexample`).  Each theorem now carries the exact extra guard `Plain`
(= none of the 19 non-ASCII white-space characters) on the strings the file keeps verbatim; the old statements are
kept as comments.  `Lemmas/CodecUni.lean` proves that on such texts the complete readers coincide with the ASCII ones
and that the writers' images are such texts. -/
section Codec
open Infretis.Codec
open Infretis.CodecUni

/-- reading back a `'{:width.prec f}'` field gives exactly the decimal written — any width,
    any magnitude (also when the field overflows), both zeros -/
theorem parse_fmt_fixed (width prec : Nat) (d : Dec) :
    parseFixed prec (fmtFixed width prec d) = some d :=
  Infretis.Codec.parse_fmt_fixed width prec d

theorem fmtFixed_length (width prec : Nat) (d : Dec) (h : (fmtCore prec d).length ≤ width) :
    (fmtFixed width prec d).length = width :=
  Infretis.Codec.fmtFixed_length width prec d h

example : parseFixed 9 (fmtFixed 15 9 ⟨true, 0⟩) = some ⟨true, 0⟩ ∧
    fmtFixed 15 9 ⟨true, 0⟩ = "   -0.000000000".toList := by decide

/-- **read_write_roundtrip (.g96)** for any atom count under the explicit width guard `G96Ok`
    (24-character labels, every position/velocity component fits its 15 columns, box components
    after the first keep a leading blank, one raw BOX line, 3 or 9 box components) -/
theorem g96_read_write_roundtrip (raw : G96Raw) (xyz vel : List V3) (box : List Dec)
    (h : G96Ok raw xyz vel box) (hp : G96Plain raw) :
    ∃ t, writeG96 raw xyz (some vel) (some box) = .ok t ∧
      readG96U t = .ok ⟨rawAfter raw box, xyz, vel, some box⟩ :=
  Infretis.CodecUni.g96_read_write_roundtrip_uni raw xyz vel box h hp
/- OLD STATEMENT (true of the ASCII reader `Codec.readG96`, false of the code without `G96Plain`):
     (h : G96Ok raw xyz vel box) : ∃ t, writeG96 … = .ok t ∧ readG96 t = .ok ⟨rawAfter raw box, xyz, vel, some box⟩
   kept as `Infretis.Codec.g96_read_write_roundtrip` in Lemmas/CodecFixed.lean. -/

/-- the guard `G96Plain` is needed: the title line `<U+00A0>END` passes `G96Ok` (the ASCII `strip` leaves it alone), the
    real reader strips the no-break space, takes the line for an `END` marker and drops it — the title is lost -/
theorem g96_roundtrip_nonascii_space_title_counterexample :
    ∃ (raw : G96Raw) (xyz vel : List V3) (box : List Dec) (t : Text), G96Ok raw xyz vel box ∧
      raw.title = [['\u00a0', 'E', 'N', 'D']] ∧ writeG96 raw xyz (some vel) (some box) = .ok t ∧
      (readG96U t).map (·.raw.title) = .ok [] ∧ (readG96 t).map (·.raw.title) = .ok raw.title := by
  refine ⟨⟨[['\u00a0', 'E', 'N', 'D']], ["    1 SOL      OW      1".toList], ["    1 SOL      OW      1".toList], [['x']], [], []⟩,
    [⟨⟨false, 1000000000⟩, ⟨false, 2000000000⟩, ⟨false, 3000000000⟩⟩], [⟨⟨true, 5⟩, ⟨false, 0⟩, ⟨false, 7⟩⟩],
    [⟨false, 1000000000⟩, ⟨false, 1000000000⟩, ⟨false, 1000000000⟩], _, ?_, rfl, rfl, by decide +kernel, by decide +kernel⟩
  refine ⟨?_, ?_, ?_, rfl, rfl, rfl, ?_, ?_, ⟨_, rfl⟩, Or.inl rfl, ?_⟩
  · intro t ht
    simp only [List.mem_singleton] at ht
    subst ht
    exact ⟨by intro c hc; revert c; decide, by decide +kernel, ⟨by decide +kernel, by decide +kernel⟩⟩
  · intro t ht
    simp only [List.mem_singleton] at ht
    subst ht
    exact ⟨by decide, by intro c hc; revert c; decide⟩
  · intro t ht
    simp only [List.mem_singleton] at ht
    subst ht
    exact ⟨by decide, by intro c hc; revert c; decide⟩
  · intro v hv
    simp only [List.mem_singleton] at hv
    subst hv
    exact ⟨Infretis.Codec.fit_of_lt _ (fun _ => by decide) (fun h => by cases h),
           Infretis.Codec.fit_of_lt _ (fun _ => by decide) (fun h => by cases h),
           Infretis.Codec.fit_of_lt _ (fun _ => by decide) (fun h => by cases h)⟩
  · intro v hv
    simp only [List.mem_singleton] at hv
    subst hv
    exact ⟨Infretis.Codec.fit_of_lt _ (fun h => by cases h) (fun _ => by decide),
           Infretis.Codec.fit_of_lt _ (fun _ => by decide) (fun h => by cases h),
           Infretis.Codec.fit_of_lt _ (fun _ => by decide) (fun h => by cases h)⟩
  · intro d hd
    simp only [List.tail_cons, List.mem_cons, List.not_mem_nil, or_false] at hd
    rcases hd with rfl | rfl <;>
      exact Infretis.Codec.fitBox_of_lt _ (fun _ => by decide) (fun h => by cases h)

/-- `|x| < 10^5` (non-negative) / `|x| < 10^4` (negative) fits a 15-column field -/
theorem g96_fit_of_lt (d : Dec) (hp : d.neg = false → d.mag < 10 ^ 14) (hn : d.neg = true → d.mag < 10 ^ 13) :
    Fit d :=
  Infretis.Codec.fit_of_lt d hp hn

example : G96Ok exRaw exXyz exVel exBox ∧ G96Plain exRaw :=
  ⟨Infretis.Codec.exG96_ok, by
    refine ⟨?_, ?_, ?_⟩ <;> (intro t ht; intro c hc; revert c; revert t; decide +kernel)⟩

/-- the widest numbers that still fit a 15-column field: 99999.999999999 and -9999.999999999 -/
example : Fit ⟨false, 99999999999999⟩ ∧ Fit ⟨true, 9999999999999⟩ :=
  ⟨Infretis.Codec.fit_of_lt _ (fun _ => by decide) (fun h => by cases h),
   Infretis.Codec.fit_of_lt _ (fun h => by cases h) (fun _ => by decide)⟩

/-- the box guard is necessary: BOX is read by white-space split, so a 15-column box field
    without a leading blank merges with its neighbour → ValueError (positions are read by columns) -/
theorem g96_roundtrip_wide_box_counterexample :
    ∃ t, writeG96 exRaw exXyz (some exVel) (some [⟨false, 7000000000⟩, ⟨true, 1234000000005⟩, ⟨false, 5⟩]) = .ok t ∧
      readG96 t = .error .value :=
  Infretis.Codec.g96_roundtrip_wide_box_counterexample

/-- **read_write_roundtrip (xyz)** for any atom count ≥ 1, any ordering, non-empty white-space
    free names, arbitrary 9-decimal numbers (no width guard: the reader splits on white space)
    and an arbitrary or absent 4-decimal box -/
theorem xyz_read_write_roundtrip (c : Conf) (h : XyzOk c) (hn : ∀ nm ∈ c.names, Plain nm) (t : Text)
    (hw : writeXyz (some c.names) c.pos c.vel c.box none = .ok t) :
    readXyzFramesU t = ([snapOf c], none) ∧ convertSnapshot (snapOf c) = .ok c ∧
      readConfigurationU t = .ok c :=
  ⟨(Infretis.CodecUni.xyz_read_write_roundtrip_uni c h hn t hw).1, (Infretis.Codec.xyz_read_write_roundtrip c h t hw).2.1,
   (Infretis.CodecUni.xyz_read_write_roundtrip_uni c h hn t hw).2⟩
/- OLD STATEMENT (true of the ASCII reader, false of the code without `hn`: `XyzOk` only excludes ASCII white space from
   the names):  (h : XyzOk c) … : readXyzFrames t = ([snapOf c], none) ∧ … ∧ readConfiguration t = .ok c
   kept as `Infretis.Codec.xyz_read_write_roundtrip` in Lemmas/CodecFixed.lean. -/

/-- the guard on the names is needed: the atom name `A<U+00A0>B` satisfies `XyzOk`; `write_xyz_trajectory` writes it,
    `line.split()` of the real reader cuts it in two and `float('B')` raises ValueError (the ASCII reader of
    `Model/Codec.lean` returns the configuration) -/
theorem xyz_roundtrip_nonascii_space_name_counterexample :
    ∃ (c : Conf) (t : Text), XyzOk c ∧ c.names = [['A', '\u00a0', 'B']] ∧ writeConf c = .ok t ∧
      readConfigurationU t = .error .value ∧ readConfiguration t = .ok c := by
  refine ⟨⟨none, [⟨⟨false, 1000000000⟩, ⟨false, 2000000000⟩, ⟨false, 3000000000⟩⟩], [⟨⟨false, 0⟩, ⟨true, 0⟩, ⟨false, 5⟩⟩],
    [['A', '\u00a0', 'B']]⟩, _, ?_, rfl, rfl, by decide +kernel, by decide +kernel⟩
  refine ⟨by decide, by decide, by decide, ?_⟩
  intro nm h
  simp only [List.mem_singleton] at h
  subst h
  exact ⟨by decide, by intro c hc; revert c; decide⟩

theorem xyz_write_ok (c : Conf) (h : XyzOk c) :
    writeXyz (some c.names) c.pos c.vel c.box none = .ok (unlines (frameLines c)) :=
  Infretis.Codec.xyz_write_ok c h

example : XyzOk exConf ∧ ∀ nm ∈ exConf.names, Plain nm :=
  ⟨Infretis.Codec.exConf_ok, by intro nm hn c hc; revert c; revert nm; decide +kernel⟩

/-- zero atoms: the frame is written but `convert_snapshot` raises KeyError('atomname') -/
theorem xyz_roundtrip_zero_atoms_counterexample :
    ∃ t, writeXyz (some []) [] [] none none = .ok t ∧ readConfiguration t = .error .key :=
  Infretis.Codec.xyz_roundtrip_zero_atoms_counterexample

/-- **extract_frame_k (xyz).**  Frame `k` of a trajectory of any number of frames is written
    byte for byte as frame `k` alone would be; beyond the end nothing is written. -/
theorem extract_frame_k (cs : List Conf) (h : ∀ c ∈ cs, XyzOk c) (hn : ∀ c ∈ cs, ∀ nm ∈ c.names, Plain nm) (t : Text)
    (ht : writeTraj cs = .ok t) (k : Nat) :
    (∀ hk : k < cs.length, ∃ o, writeConf cs[k] = .ok o ∧ extractFrameU k t = .ok (some o)) ∧
    (cs.length ≤ k → extractFrameU k t = .ok none) :=
  Infretis.CodecUni.extract_frame_k_uni cs h hn t ht k
/- OLD STATEMENT (ASCII reader `extractFrame`, without `hn`): kept as `Infretis.Codec.extract_frame_k` /
   `extract_frame_beyond` in Lemmas/CodecFixed.lean. -/

example : (∀ c ∈ [exConf, exConf2, exConf], XyzOk c) ∧ ∀ c ∈ [exConf, exConf2, exConf], ∀ nm ∈ c.names, Plain nm :=
  ⟨Infretis.Codec.exTraj_ok, by intro c hc nm hn x hx; revert x; revert nm; revert c; decide +kernel⟩

/-- **reverse_only_negates_vel (xyz).**  The reversed file is exactly the file of the same
    configuration with every velocity component sign-flipped (box, positions, names untouched);
    reversing twice restores the original bytes. -/
theorem xyz_reverse_only_negates_vel (c : Conf) (h : XyzOk c) (hn : ∀ nm ∈ c.names, Plain nm) (t : Text)
    (hw : writeConf c = .ok t) :
    (∃ t', reverseXyzU t = .ok t' ∧ writeConf (revConf c) = .ok t' ∧
      readConfigurationU t' = .ok (revConf c)) ∧
    (∃ t', reverseXyzU t = .ok t' ∧ reverseXyzU t' = .ok t) :=
  Infretis.CodecUni.xyz_reverse_only_negates_vel_uni c h hn t hw
/- OLD STATEMENT (ASCII reader, without `hn`): `Infretis.Codec.xyz_reverse_only_negates_vel` / `xyz_reverse_twice`. -/

/-- **reverse_only_negates_vel (.g96)**, also requiring that the negated velocities fit -/
theorem g96_reverse_only_negates_vel (raw : G96Raw) (xyz vel : List V3) (box : List Dec)
    (h : G96Ok raw xyz vel box) (hp : G96Plain raw) (hn : ∀ v ∈ vel, Fit3 v.negate) (t : Text)
    (hw : writeG96 raw xyz (some vel) (some box) = .ok t) :
    ∃ t', reverseG96U t = .ok t' ∧
      readG96U t' = .ok ⟨rawAfter raw box, xyz, vel.map V3.negate, some box⟩ ∧
      reverseG96U t' = .ok t :=
  Infretis.CodecUni.g96_reverse_only_negates_vel_uni raw xyz vel box h hp hn t hw
/- OLD STATEMENT (ASCII reader, without `G96Plain`): `Infretis.Codec.g96_reverse_only_negates_vel`. -/

/-- **the complete readers ARE the ASCII readers on texts without non-ASCII white space** (so every statement of
    `Lemmas/CodecFixed.lean` about the ASCII model is a statement about the code on such texts): xyz for every text,
    .g96 for every list of lines -/
theorem readers_agree_on_plain_text (t : Text) (ls : List Line) (ht : Plain t) (hl : ∀ l ∈ ls, Plain l) :
    readXyzFramesU t = readXyzFrames t ∧ readConfigurationU t = readConfiguration t ∧
    (∀ k, extractFrameU k t = extractFrame k t) ∧ reverseXyzU t = reverseXyz t ∧
    readG96LinesU ls = readG96Lines ls := by
  have e := normT_plain ht
  exact ⟨by rw [readXyzFramesU, e], by rw [readConfigurationU, e], fun k => by rw [extractFrameU, e],
         by rw [reverseXyzU, e], readG96LinesU_plain ls hl⟩

example : Plain "2\n# Box: 1.0\nAr 1.0 2.0 3.0\n".toList ∧ ¬ Plain "A\u00a0B".toList :=
  ⟨by intro c hc; revert c; decide +kernel, fun h => absurd (h '\u00a0' (by decide)) (by decide)⟩

end Codec

/-! ## 5. `.lammpstrj` and the TRR byte layout

LAMMPS numbers are numpy `str()` tokens, carried as opaque tokens (`Num`, `negate` toggles the
sign).  TRR: IEEE decoding is outside the model; a decoded real is its field bytes normalised
to big-endian order, so "decodes identically" = "the same field bytes are selected". -/
section Lmp
open Infretis.Lmp

/-- sorting by id is a permutation, sorted, and with distinct ids the unique strictly increasing
    arrangement (independent of the algorithm behind `np.argsort`) -/
theorem lmp_sort_perm_sorted (atoms : List Atom) :
    (sortAtoms atoms).Perm atoms ∧ SortedById (sortAtoms atoms) ∧
    (DistinctIds atoms →
      StrictById (sortAtoms atoms) ∧ ∀ r : List Atom, r.Perm atoms → StrictById r → r = sortAtoms atoms) :=
  Infretis.Lmp.lmp_sort_perm_sorted atoms

/-- **read_write_roundtrip (.lammpstrj)** for any `n ≥ 2` atoms in any id ordering -/
theorem lmp_read_write_roundtrip (atoms : List Atom) (b : List (List Num))
    (hn : 2 ≤ atoms.length) (hat : AtomsOK atoms) (hb : BoxOK b) (hd : DistinctIds atoms) :
    readFrame (writeFrame { atoms := atoms, box := some b }) 0 atoms.length
        = .ok { atoms := sortAtoms atoms, box := some b }
    ∧ (sortAtoms atoms).Perm atoms
    ∧ SortedById (sortAtoms atoms)
    ∧ (SortedById atoms →
        readFrame (writeFrame { atoms := atoms, box := some b }) 0 atoms.length
          = .ok { atoms := atoms, box := some b }) :=
  Infretis.Lmp.lmp_read_write_roundtrip atoms b hn hat hb hd

example : 2 ≤ exAtoms.length ∧ AtomsOK exAtoms ∧ BoxOK exBox ∧ DistinctIds exAtoms := Infretis.Lmp.exAtoms_ok

/-- the property's own scope: one atom → IndexError; written without box → ValueError -/
theorem lmp_out_of_scope (a : Atom) (t : List Atom) (b : List (List Num)) (ha : AtomsOK (a :: t))
    (hb : BoxOK b) (n : Nat) :
    readFrame (writeFrame { atoms := [a], box := some b }) 0 1 = .error .index ∧
    readFrame (writeFrame { atoms := a :: t, box := none }) 0 n = .error .value :=
  ⟨Infretis.Lmp.lmp_single_atom_index_error a b (ha a (List.mem_cons_self)) hb,
   Infretis.Lmp.lmp_no_box_value_error a t ha n⟩

/-- **extract_frame_k (.lammpstrj)** -/
theorem lmp_extract_frame_k (cs : List Conf) (n k : Nat) (hn : 2 ≤ n)
    (hcs : ∀ c ∈ cs, FrameOK n c) (hk : k < cs.length) :
    readFrame (writeFrames cs) (k : Int) n = .ok (sortConf cs[k])
    ∧ extractFrame (writeFrames cs) (k : Int) n = .ok (writeFrame (sortConf cs[k]))
    ∧ readFrame (writeFrame (sortConf cs[k])) 0 n = .ok (sortConf cs[k]) :=
  Infretis.Lmp.lmp_extract_frame_k cs n k hn hcs hk

/-- **reverse_only_negates_vel (.lammpstrj)** -/
theorem lmp_reverse_only_negates_vel (c : Conf) (n : Nat) (hn : 2 ≤ n) (hc : FrameOK n c) :
    reverseVel (writeFrame c) n = .ok (writeFrame (negVel (sortConf c)))
    ∧ (negVel (sortConf c)).box = c.box
    ∧ (negVel (sortConf c)).atoms.map (fun a => (a.id, a.typ, a.pos))
        = (sortAtoms c.atoms).map (fun a => (a.id, a.typ, a.pos))
    ∧ (negVel (sortConf c)).atoms.map (fun a => a.vel) = (sortAtoms c.atoms).map (fun a => a.vel.map Num.negate)
    ∧ (∀ out, reverseVel (writeFrame c) n = .ok out → reverseVel out n = .ok (writeFrame (sortConf c))) :=
  Infretis.Lmp.lmp_reverse_only_negates_vel c n hn hc

end Lmp

section Trr
open Infretis.Trr

/-- **trr_decode_endian_precision.**  For every size-consistent logical frame, both byte orders
    and both precisions, the reader returns exactly the frame's header integers and field bytes
    and stops at the end of the frame; in particular the big- and little-endian files of the
    same frame decode to the same values. -/
theorem trr_decode_endian_precision (e : Endian) (w : Nat) (f : LFrame) (h : LOK w f) (rest : Bytes) :
    decodeFrame (encodeFrame e w f ++ rest) = .ok (expectedHeader e w f, expectedData f, rest) :=
  Infretis.Trr.trr_decode_endian_precision e w f h rest

theorem trr_decode_endian_agree (w : Nat) (f : LFrame) (h : LOK w f) (r₁ r₂ : Bytes) :
    ∃ hb hl d, decodeFrame (encodeFrame .big w f ++ r₁) = .ok (hb, d, r₁)
      ∧ decodeFrame (encodeFrame .little w f ++ r₂) = .ok (hl, d, r₂)
      ∧ hb.sz = hl.sz ∧ hb.time = hl.time ∧ hb.lambda = hl.lambda ∧ hb.double = hl.double
      ∧ hb.endian = .big ∧ hl.endian = .little :=
  Infretis.Trr.trr_decode_endian_agree w f h r₁ r₂

/-- **extract_frame_k (TRR)**: frames of mixed byte order and precision -/
theorem trr_frame_k (frames : List (Endian × Nat × LFrame)) (hall : ∀ x ∈ frames, LOK x.2.1 x.2.2) (k : Nat) :
    (∀ hk : k < frames.length, readTrrFrame (encodeFrames frames) (k : Int)
        = .ok (some (expectedHeader frames[k].1 frames[k].2.1 frames[k].2.2, expectedData frames[k].2.2)))
    ∧ (frames.length ≤ k → readTrrFrame (encodeFrames frames) (k : Int) = .ok none) :=
  Infretis.Trr.trr_frame_k frames hall k

/-- `swap_integer` relates the two readings of the same four bytes -/
theorem trr_swap_integer_be_le (a b c d : UInt8) :
    swapInteger (be32 [a, b, c, d] : Nat) = le32 [a, b, c, d]
    ∧ swapInteger (le32 [a, b, c, d] : Nat) = be32 [a, b, c, d] :=
  Infretis.Trr.swap_integer_be_le a b c d

example : decodeFrame (encodeFrame .little 4 exF ++ [9, 9]) = .ok (expectedHeader .little 4 exF, expectedData exF, [9, 9]) :=
  Infretis.Trr.trr_decode_endian_precision .little 4 exF Infretis.Trr.exF_ok [9, 9]

end Trr

/-! ## 6. box matrices: `box_matrix_to_list` (TRR → g96, CP2K cell vectors)

The nine box numbers follow the .g96 convention `xx yy zz xy xz yx yz zx zy` (first letter =
row of the matrix).  The code offers no inverse; `listToMatrix` is the specification's. -/
section Box
open Infretis.Box

/-- **the fixed order**: with `full=True` (what `_extract_frame` and `_propagate_from` use) the
    nine numbers are `m[0,0] m[1,1] m[2,2] m[0,1] m[0,2] m[1,0] m[1,2] m[2,0] m[2,1]` -/
theorem box_component_order (m : M3) :
    boxMatrixToList m true = [m.xx, m.yy, m.zz, m.xy, m.xz, m.yx, m.yz, m.zx, m.zy] :=
  Infretis.Box.boxMatrixToList_full m

/-- **round trip matrix ↔ list for every box shape** (triclinic included): the matrix is
    recovered from its nine numbers, and every nine numbers are the flattening of one matrix -/
theorem box_list_matrix_roundtrip (m : M3) (l : List Int) (h : l.length = 9) :
    listToMatrix (boxMatrixToList m true) = some m ∧
    ∃ m', listToMatrix l = some m' ∧ boxMatrixToList m' true = l := by
  refine ⟨by rw [Infretis.Box.boxMatrixToList_full]; exact Infretis.Box.listToMatrix_g96Order m, ?_⟩
  obtain ⟨m', a, b⟩ := Infretis.Box.g96Order_listToMatrix l h
  exact ⟨m', a, by rw [Infretis.Box.boxMatrixToList_full]; exact b⟩

/-- without `full`: a rectangular box gives its three lengths, a matrix with more than three
    non-zero entries (every non-degenerate triclinic cell) its nine numbers in the same order -/
theorem box_short_and_long (a b c : Int) (m : M3) (hm : 3 < countNonzero m) :
    boxMatrixToList ⟨a, 0, 0, 0, b, 0, 0, 0, c⟩ false = [a, b, c] ∧
    boxMatrixToList m false = [m.xx, m.yy, m.zz, m.xy, m.xz, m.yx, m.yz, m.zx, m.zy] :=
  ⟨(Infretis.Box.short_diag a b c).1, Infretis.Box.long_of_nonzero m false hm⟩

example : boxMatrixToList ⟨1, 2, 3, 4, 5, 6, 7, 8, 9⟩ true = [1, 5, 9, 2, 3, 4, 6, 7, 8] ∧
    cellABC (10, 0, 0) (2, 11, 0) (3, 4, 12) = [10, 11, 12, 2, 3, 0, 4, 0, 0] ∧
    3 < countNonzero ⟨10, 2, 3, 0, 11, 4, 0, 0, 12⟩ := by decide

end Box

/-! ## 7. the CP2K cell reader: `read_box_data` / `read_cp2k_box`

`readBoxData lines` mirrors `cp2k.read_box_data` on the lines of the `FORCE_EVAL->SUBSYS->CELL` section (a line belongs
to key K iff it starts with `K` and ONE blank; the last line of a key wins; A, B, C are the COLUMNS of the matrix;
`box_matrix_to_list` flattens it); `readCp2kBox` is the whole `read_cp2k_box` from the file content (the CP2K parser
of section 3, `node_ref["FORCE_EVAL->SUBSYS->CELL"]`, the 100 Å fallback).  Numbers are the integer tokens
`[+-]digits[.0*]`; `vecLine K v` prints `K x y z` with decimal integers (the specification's writer). -/
section BoxData
open Infretis.BoxData
open Infretis.Box

/-- a printed integer is read back as itself (so is every list of them, left to right) -/
theorem cp2k_cell_number_roundtrip (i : Int) (v : List Int) :
    classify (intTok i) = .int i ∧ nums (v.map intTok) = .ok v :=
  ⟨classify_intTok i, nums_intToks v⟩

/-- a printed line `K x …` is recognised by its own key and by no other of the six -/
theorem cp2k_cell_line_own_key (k k' : Key) (x : Int) (r : List Int) :
    startsKey k' (vecLine k (x :: r)) = decide (k' = k) :=
  startsKey_vecLine k k' x r

/-- **read ∘ write (CP2K cell vectors).**  Whatever lines come first (read without error), the three lines `A …`,
    `B …`, `C …` make the box the flattening, in the order xx yy zz xy xz yx yz zx zy, of the matrix whose COLUMNS are
    A, B, C; earlier `A`/`B`/`C`/`ABC`/angle lines do not matter (the last line of a key wins, A/B/C take precedence);
    the periodic setting is the one collected from the preceding lines. -/
theorem cp2k_cell_read_write (pre : List Infretis.BoxData.Str) (d : BoxDict) (a b c : Int × Int × Int)
    (hpre : collect pre {} = .ok d) :
    readBoxData (pre ++ [vecLine .A (vec3 a), vecLine .B (vec3 b), vecLine .C (vec3 c)]) =
      .ok (some (cellABC a b c), periodicFlags d.periodic) :=
  readBoxData_cell pre d a b c hpre

example : collect ["PERIODIC xy".toList, "ABC 9 9 9".toList, "A 1 1 1".toList] {} =
    .ok { a := some [1, 1, 1], abc := some [9, 9, 9], periodic := some "xy".toList } ∧
    periodicFlags (some "xy".toList) = (true, true, false) := by decide +kernel

/-- **the nine numbers lose nothing**: the matrix with columns A, B, C is recovered from the box that
    `read_box_data` returns — for every cell with more than three non-zero entries (every non-degenerate triclinic
    cell) and every diagonal cell.  (With ≤ 3 non-zero entries off the diagonal `box_matrix_to_list` returns the
    diagonal only: the `count_nonzero` quirk recorded in section 6.) -/
theorem cp2k_cell_lossless (a b c : Int × Int × Int)
    (h : 3 < countNonzero (colMatrix a b c) ∨ colMatrix a b c = ⟨a.1, 0, 0, 0, b.2.1, 0, 0, 0, c.2.2⟩) :
    listToMatrix (cellABC a b c) = some (colMatrix a b c) :=
  cell_lossless a b c h

example : 3 < countNonzero (colMatrix (10, 0, 0) (2, 11, 0) (3, 4, 12)) ∧
    colMatrix (10, 0, 0) (2, 11, 0) (3, 4, 12) = ⟨10, 2, 3, 0, 11, 4, 0, 0, 12⟩ := by decide

/-- `ABC` alone gives the numbers as they are (any count ≥ 1); lengths with three right angles give the rectangular
    box `l0, |l1|, |l2|` (the only rational case of `box_vector_angles`: cos 90° is replaced by 0.0) -/
theorem cp2k_cell_lengths (x : Int) (v : List Int) (l0 l1 l2 : Int) (h1 : l1 ≠ 0) :
    readBoxData [vecLine .ABC (x :: v)] = .ok (some (x :: v), (true, true, true)) ∧
    readBoxData [vecLine .ABC [l0, l1, l2], vecLine .ABG [90, 90, 90]] =
      .ok (some [l0, (l1.natAbs : Int), (l2.natAbs : Int)], (true, true, true)) :=
  ⟨readBoxData_abc v x, readBoxData_ortho l0 l1 l2 h1⟩

/-- the rules that are easy to trip over, on concrete lines (kernel-checked): a lower-case key, a tab after the key
    and a key without blank are NOT recognised; a unit in brackets is a ValueError; a vector of two numbers cannot be
    a column; fewer than three angles is an IndexError; `PERIODIC NONE` switches all three directions off -/
theorem cp2k_cell_reader_rules :
    readBoxData ["a 1 2 3".toList, "A\t7 7 7".toList, "ABC".toList] = .ok (none, (true, true, true)) ∧
    readBoxData ["ABC [angstrom] 10 10 10".toList] = .error .value ∧
    readBoxData ["A 1 2".toList, "B 1 2 3".toList, "C 1 2 3".toList] = .error .value ∧
    readBoxData ["ABC 1 2 3".toList, "ALPHA_BETA_GAMMA 90 90".toList] = .error .index ∧
    readBoxData ["PERIODIC NONE".toList] = .ok (none, (false, false, false)) :=
  ⟨by decide +kernel, by decide +kernel, by decide +kernel, by decide +kernel, by decide +kernel⟩

set_option maxRecDepth 8000 in
/-- `read_cp2k_box` end to end on file contents: the CELL section is found through the section tree (section names
    in any case), its lines are read by `read_box_data`; a file without `FORCE_EVAL->SUBSYS->CELL` gives the fallback -/
theorem cp2k_box_from_file :
    readCp2kBox "&force_eval\n &SUBSYS\n  &CELL\n   A 10 0 0\n   B 2 11 0\n   C 3 4 12\n   PERIODIC XY\n  &END CELL\n &END SUBSYS\n&END\n".toList
      = .ok (.cell (some [10, 11, 12, 2, 3, 0, 4, 0, 0]) (true, true, false)) ∧
    readCp2kBox "&FORCE_EVAL\n &SUBSYS\n &END SUBSYS\n&END\n".toList = .ok .fallback :=
  ⟨by decide +kernel, by decide +kernel⟩

end BoxData

end Infretis.C19
