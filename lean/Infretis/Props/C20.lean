import Infretis.Lemmas.GeomSys
/-!
# C20 — order parameters respect the symmetries of what they measure

Property theorems only (helper lemmas: `Infretis/Lemmas/Geom.lean`, `GeomVec.lean`, `GeomSys.lean`).
Model: `Infretis/Model/Geom.lean`, mirroring `infretis/classes/orderparameter.py`.

All statements are about the rational *pre-images* (`value`): `distance` ↦ `[d·d]`,
`distancevel` ↦ `[d·dv, d·d]`, `position`/`velocity` ↦ `[x]`, `dihedral` ↦ `[trip, den, n2]`,
`puckering` ↦ `[zs₀ … zs₅, nn]`.  The code's outputs are fixed functions (sqrt, arctan2, rad2deg,
a quotient by a square root) of these numbers, so every equality below carries over to the
outputs; `[−num, dsq]` ↦ `−num/√dsq` carries the sign change.  Those tails are outside the model
(the tie applies them in floating point and compares with the real classes).

Concrete witnesses and non-vacuity examples are closed by `decide +kernel`: the `Decidable`
instance is evaluated by the Lean kernel itself (core `Rat` arithmetic does not unfold under plain
`decide`); no native code and no axiom beyond the allowed three is involved.

The statements quantify over all rational coordinates, velocities, boxes of any length, Python
indices (negative ones wrap, out-of-range ones give `IndexError` on both sides of each equation),
image multipliers and rotation matrices.
-/
namespace Infretis.C20
open Infretis.Geom

/-- a system used for the non-vacuity examples: 7 atoms, dyadic coordinates, 4×8×4 box -/
def exSys : Sys :=
  { pos := [⟨0, 0, 0⟩, ⟨3, 1 / 2, 1 / 4⟩, ⟨1 / 2, 2, 3⟩, ⟨1 / 2, 5, 7 / 2⟩, ⟨-1, 1, 3 / 2⟩, ⟨5 / 2, -3, 1⟩, ⟨1, 1, -3 / 2⟩]
    vel := [⟨1, 0, 0⟩, ⟨0, 1, 0⟩, ⟨0, 0, 1⟩, ⟨1, 1, 1⟩, ⟨-1, 2, 0⟩, ⟨0, 0, 0⟩, ⟨1 / 2, 0, 1⟩]
    box := some [4, 8, 4] }

/-! ### minimum image -/

/-- `numpy.rint` (as modelled) is a nearest integer. -/
theorem rint_nearest (x : ℚ) : |x - ((rint x : ℤ) : ℚ)| ≤ 1 / 2 := abs_resid_le x

/-- **Minimum image.** A wrapped component never exceeds half the box length. -/
theorem min_image_bound (d L : ℚ) (hL : 0 < L) : |pbcWrap d L| ≤ L / 2 :=
  abs_pbcWrap_le d L hL

/-- the same for the vector `pbc_dist_coordinate` returns with a 3-entry box -/
theorem min_image_bound_vec (d : V3) (a b c : ℚ) (ha : 0 < a) (hb : 0 < b) (hc : 0 < c)
    (w : Wrapped) (h : pbcDist d [a, b, c] = .ok w) :
    |w.v.x| ≤ a / 2 ∧ |w.v.y| ≤ b / 2 ∧ |w.v.z| ≤ c / 2 ∧ w.nan = false := by
  simp only [pbcDist, Except.ok.injEq] at h
  subst h
  refine ⟨abs_pbcWrap_le _ _ ha, abs_pbcWrap_le _ _ hb, abs_pbcWrap_le _ _ hc, ?_⟩
  simp [compNan, ne_of_gt ha, ne_of_gt hb, ne_of_gt hc]

example : pbcWrap 7 4 = -1 ∧ pbcWrap 2 4 = 2 ∧ pbcWrap 6 4 = -2 ∧ pbcWrap (-6) 4 = 2 ∧ (0 : ℚ) < 4 := by
  refine ⟨?_, ?_, ?_, ?_, ?_⟩ <;> decide +kernel

/-! ### rigid translation -/

/-- **Translation invariance** of every relative order parameter (periodic or not, any box,
    both variants): translating all atoms by `t` leaves the pre-image — value or error — unchanged. -/
theorem translation_invariant (var : Variant) (op : OP) (h : op.relative = true) (s : Sys) (t : V3) :
    value var op (translate t s) = value var op s := by
  cases op with
  | distance i0 i1 p => simp only [value, distanceSq_translate]
  | distancevel i0 i1 p => simp only [value, distancevelNum_translate]
  | position i d => simp [OP.relative] at h
  | velocity i d => simp [OP.relative] at h
  | dihedral i0 i1 i2 i3 p => simp only [value, dihedral_translate]
  | puckering i0 i1 i2 i3 i4 i5 p => simp only [value, puckering_translate]

example : (OP.dihedral 0 1 2 3 true).relative = true ∧
    value .asIs (.dihedral 0 1 2 3 true) exSys = .ok [-15 / 4, -447 / 32, 97 / 16] := by
  constructor <;> decide +kernel

/-! ### shifting atoms by box vectors -/

/-- **What exactly holds for one wrapped component** under a shift by `k` box lengths:
    unchanged unless `d/L` is a half-integer *and* `k` is odd, in which case the sign flips
    (`rint` rounds ties to even, so the rounding direction depends on the parity). -/
theorem image_shift_component (d L : ℚ) (k : ℤ) (hL : L ≠ 0) :
    ((¬ WrapTie d L ∨ k % 2 = 0) → pbcWrap (d + (k : ℚ) * L) L = pbcWrap d L) ∧
    ((WrapTie d L ∧ k % 2 = 1) → pbcWrap (d + (k : ℚ) * L) L = - pbcWrap d L) ∧
    |pbcWrap (d + (k : ℚ) * L) L| = |pbcWrap d L| := by
  refine ⟨?_, ?_, ?_⟩
  · rintro (h | h)
    · exact pbcWrap_shift_of_not_tie d L k hL h
    · exact pbcWrap_shift_even d L k hL h
  · rintro ⟨h, hk⟩
    exact pbcWrap_shift_odd_tie d L k hL h hk
  · have := pbcWrap_shift_sq d L k hL
    exact abs_eq_abs.mpr (mul_self_eq_mul_self_iff.mp this)

example : WrapTie 2 4 ∧ pbcWrap (2 + ((1 : ℤ) : ℚ) * 4) 4 = -2 ∧ pbcWrap 2 4 = 2 := by
  refine ⟨?_, ?_, ?_⟩
  · unfold WrapTie IsTie; norm_num
  · decide +kernel
  · decide +kernel

/-- **Image-shift invariance of the periodic distance, ties included.** With a box of at least three
    entries, moving every atom `a` by its own image vector `(kx·Lx, ky·Ly, kz·Lz)` (integer `k`s,
    `ks a`) leaves the squared minimum-image distance unchanged — also at exact half-box ties and
    for any sign of the box lengths. -/
theorem image_shift_invariant_distance (var : Variant) (s : Sys) (L : V3) (rest : List ℚ)
    (ks : Nat → Int × Int × Int) (i0 i1 : Int) (hbox : s.box = some (L.x :: L.y :: L.z :: rest)) :
    value var (.distance i0 i1 true) (shiftImages L ks s) = value var (.distance i0 i1 true) s := by
  simp only [value, distanceSq_shift s L rest ks i0 i1 hbox]

/-- **Image-shift invariance of all periodic order parameters** when no wrapped difference has a
    component exactly at a half-box tie (`TieFreeSys`; at such a tie the minimum image is not
    unique and the sign of that component does depend on the image — see
    `image_shift_component` and `image_shift_invariant_tie_counterexample`). -/
theorem image_shift_invariant (var : Variant) (op : OP) (hper : op.periodic = true) (s : Sys) (L : V3)
    (rest : List ℚ) (ks : Nat → Int × Int × Int) (hbox : s.box = some (L.x :: L.y :: L.z :: rest))
    (htf : TieFreeSys op s L) :
    value var op (shiftImages L ks s) = value var op s := by
  cases op with
  | distance i0 i1 p =>
    simp only [OP.periodic] at hper; subst hper
    exact image_shift_invariant_distance var s L rest ks i0 i1 hbox
  | distancevel i0 i1 p =>
    simp only [OP.periodic] at hper; subst hper
    simp only [value, distancevelNum_shift var s L rest ks i0 i1 hbox htf]
  | position i d => simp [OP.periodic] at hper
  | velocity i d => simp [OP.periodic] at hper
  | dihedral i0 i1 i2 i3 p =>
    simp only [OP.periodic] at hper; subst hper
    simp only [value, dihedral_shift s L rest ks i0 i1 i2 i3 hbox htf]
  | puckering i0 i1 i2 i3 i4 i5 p =>
    simp only [OP.periodic] at hper; subst hper
    simp only [value, puckering_shift s L rest ks i0 i1 i2 i3 i4 i5 hbox htf]

/-- two atoms exactly half a box apart along x -/
def tieSys : Sys :=
  { pos := [⟨0, 0, 0⟩, ⟨2, 0, 0⟩], vel := [⟨0, 0, 0⟩, ⟨1, 0, 0⟩], box := some [4, 4, 4] }

/-- at an exact half-box tie the *signed* periodic parameters are not image-shift invariant:
    moving atom 1 by one box length along x flips the sign of `Distancevel`'s numerator. -/
theorem image_shift_invariant_tie_counterexample :
    value .asIs (.distancevel 0 1 true) tieSys = .ok [2, 4] ∧
    value .asIs (.distancevel 0 1 true)
      (shiftImages ⟨4, 4, 4⟩ (fun a => if a = 1 then (1, 0, 0) else (0, 0, 0)) tieSys) = .ok [-2, 4] := by
  constructor <;> decide +kernel

/-- `exSys` is tie-free for the dihedral 0-1-2-3 (non-vacuity of `image_shift_invariant`) -/
example : (OP.dihedral 0 1 2 3 true).periodic = true ∧ exSys.box = some [4, 8, 4] ∧
    value .asIs (.dihedral 0 1 2 3 true)
      (shiftImages ⟨4, 8, 4⟩ (fun a => if a = 2 then (1, -2, 3) else (0, 0, 0)) exSys)
      = value .asIs (.dihedral 0 1 2 3 true) exSys := by
  refine ⟨?_, ?_, ?_⟩ <;> decide +kernel

/-! ### velocity reversal -/

/-- negate the first entry of a pre-image list (the velocity-linear one) -/
def negHead : List ℚ → List ℚ
  | [] => []
  | x :: t => -x :: t

/-- **Velocity reversal.** Velocity-type parameters (`velocity_dependent = True`: Distancevel,
    Velocity) change sign under `v ↦ −v` (the numerator `d·dv` is negated, `d·d` is not, so the
    code's `num/√dsq` changes sign); position-type ones do not change at all. -/
theorem velocity_reversal_sign (var : Variant) (op : OP) (s : Sys) :
    value var op (reverseVel s) =
      if op.velocityDependent then (value var op s).map negHead else value var op s := by
  cases op with
  | distance i0 i1 p => rfl
  | distancevel i0 i1 p =>
    simp only [value, OP.velocityDependent, if_true, distancevelNum_reverse]
    cases distancevelNum var s i0 i1 p <;> rfl
  | position i d => rfl
  | velocity i d =>
    simp only [value, OP.velocityDependent, if_true, velocity_reverse]
    cases velocity s i d <;> rfl
  | dihedral i0 i1 i2 i3 p => rfl
  | puckering i0 i1 i2 i3 i4 i5 p => rfl

example : value .asIs (.distancevel 0 1 true) exSys = .ok [3 / 2, 21 / 16] ∧
    value .asIs (.distancevel 0 1 true) (reverseVel exSys) = .ok [-3 / 2, 21 / 16] := by
  constructor <;> decide +kernel

/-- **`calculate_order` and the `vel_rev` flag.** With the flag set, the engine hands the order
    parameter the negated velocities: velocity-type results are the negatives of the flag-off
    results, position-type results are identical (both routes of `calculate_order` run the same
    statements after the arrays are known, so this is one statement). -/
theorem calculateOrder_vel_rev (var : Variant) (op : OP) (box0 : Option (List ℚ)) (xyz vel : List V3)
    (box : Option (List ℚ)) :
    (calculateOrder var op true box0 xyz vel box).1 =
      if op.velocityDependent then (calculateOrder var op false box0 xyz vel box).1.map negHead
      else (calculateOrder var op false box0 xyz vel box).1 := by
  have h := velocity_reversal_sign var op
    { pos := xyz, vel := vel, box := newBox box0 box }
  simpa [calculateOrder, calculate, reverseVel] using h

example : (calculateOrder .asIs (.velocity 1 1) true none exSys.pos exSys.vel exSys.box).1 = .ok [-1] ∧
    (calculateOrder .asIs (.velocity 1 1) false none exSys.pos exSys.vel exSys.box).1 = .ok [1] := by
  constructor <;> decide +kernel

/-! ### `Path.reverse` -/

theorem negHead_negHead (l : List ℚ) : negHead (negHead l) = l := by
  cases l with
  | nil => rfl
  | cons x t => simp [negHead]

/-- **`Path.reverse`, repaired variant**: recomputing the order of the reversed frame on its physical
    velocities (`vel · (−1)^vel_rev` with the toggled flag) negates the order of every
    velocity-type parameter and leaves position-type ones alone. -/
theorem path_reverse_flips_velocity_order (var : Variant) (op : OP) (f : Frame) :
    (reverseRecompute .repaired var op f).2 =
      if op.velocityDependent then (frameOrder var op f).map negHead else frameOrder var op f := by
  have h := velocity_reversal_sign var op f.sys
  cases hv : f.velRev with
  | false =>
    simp only [reverseRecompute, frameOrder, Frame.physical, hv, Bool.not_false, if_true]
    simpa using h
  | true =>
    simp only [reverseRecompute, frameOrder, Frame.physical, hv, Bool.not_true, Bool.false_eq_true, if_false,
      if_true]
    rw [h]
    cases op.velocityDependent with
    | false => simp
    | true =>
      simp only [if_true]
      cases value var op f.sys with
      | error e => rfl
      | ok l => simp [Except.map, negHead_negHead]

/-- the frame of the witness: one atom with velocity (3,0,0), not reversed -/
def revFrame : Frame := { sys := ⟨[⟨0, 0, 0⟩], [⟨3, 0, 0⟩], none⟩, velRev := false }

example : OP.velocityDependent (.velocity 0 0) = true ∧ frameOrder .asIs (.velocity 0 0) revFrame = .ok [3] ∧
    (reverseRecompute .repaired .asIs (.velocity 0 0) revFrame).2 = .ok [-3] := by
  refine ⟨?_, ?_, ?_⟩ <;> decide +kernel

/-- **The code as it is does not flip the sign**: `Path.reverse` toggles `vel_rev` and calls
    `order_function.calculate(frame)`, which reads the stored velocities and ignores the flag.
    Witness: `Velocity(0,'x')` on a frame with velocity (3,0,0): order 3 before, 3 (not −3) after. -/
theorem path_reverse_velocity_order_counterexample :
    ¬ (∀ (var : Variant) (op : OP) (f : Frame), op.velocityDependent = true →
        (reverseRecompute .asIs var op f).2 = (frameOrder var op f).map negHead) := by
  intro h
  have := h .asIs (.velocity 0 0) revFrame (by decide)
  revert this
  decide +kernel

/-- in general: as the code is, the recomputed order of a frame that was not reversed before is
    simply the old order -/
theorem path_reverse_asIs_order_unchanged (var : Variant) (op : OP) (f : Frame) (hf : f.velRev = false) :
    (reverseRecompute .asIs var op f).2 = frameOrder var op f := by
  simp [reverseRecompute, frameOrder, Frame.physical, hf]

/-! ### 3- and 9-component boxes -/

/-- **3- vs 9-component boxes, repaired variant** (`Distancevel` slicing `box[:3]` like the other
    classes): every order parameter gives the same result for `[x,y,z]` and for `[x,y,z] ++ rest`,
    in particular for the GROMACS form `[x,y,z,0,0,0,0,0,0]`. -/
theorem box3_boxN_agree_repaired (op : OP) (s : Sys) (x y z : ℚ) (rest : List ℚ) :
    value .repaired op { s with box := some (x :: y :: z :: rest) }
      = value .repaired op { s with box := some [x, y, z] } := by
  cases op with
  | distance i0 i1 p => simp only [value, distanceSq_box]
  | distancevel i0 i1 p => simp only [value, distancevelNum_box_repaired]
  | position i d => rfl
  | velocity i d => rfl
  | dihedral i0 i1 i2 i3 p => simp only [value, dihedral_box]
  | puckering i0 i1 i2 i3 i4 i5 p => simp only [value, puckering_box]

theorem box3_box9_agree (op : OP) (s : Sys) (x y z : ℚ) :
    value .repaired op { s with box := some [x, y, z, 0, 0, 0, 0, 0, 0] }
      = value .repaired op { s with box := some [x, y, z] } :=
  box3_boxN_agree_repaired op s x y z _

example : value .repaired (.distancevel 0 1 true) { exSys with box := some [4, 8, 4, 0, 0, 0, 0, 0, 0] }
    = .ok [3 / 2, 21 / 16] := by decide +kernel

/-- **The code as it is violates the 3/9 agreement**: `Distancevel.calculate` hands the whole box to
    `pbc_dist_coordinate`, whose loop over the *box* entries indexes `distance[3]`.
    Witness: atoms (0,0,0), (1,0,0), velocities (0,0,0), (1,0,0): the 3-box gives `d·dv = 1`,
    `d·d = 1` (code: `[1.0]`), the 9-box raises IndexError. -/
theorem box3_box9_agree_counterexample :
    ¬ (∀ (op : OP) (s : Sys) (x y z : ℚ),
        value .asIs op { s with box := some [x, y, z, 0, 0, 0, 0, 0, 0] }
          = value .asIs op { s with box := some [x, y, z] }) := by
  intro h
  have := h (.distancevel 0 1 true) ⟨[⟨0, 0, 0⟩, ⟨1, 0, 0⟩], [⟨0, 0, 0⟩, ⟨1, 0, 0⟩], none⟩ 4 4 4
  revert this
  decide +kernel

/-- the two sides of the witness, written out -/
theorem box3_box9_agree_counterexample_values :
    value .asIs (.distancevel 0 1 true)
      ⟨[⟨0, 0, 0⟩, ⟨1, 0, 0⟩], [⟨0, 0, 0⟩, ⟨1, 0, 0⟩], some [4, 4, 4]⟩ = .ok [1, 1] ∧
    value .asIs (.distancevel 0 1 true)
      ⟨[⟨0, 0, 0⟩, ⟨1, 0, 0⟩], [⟨0, 0, 0⟩, ⟨1, 0, 0⟩], some [4, 4, 4, 0, 0, 0, 0, 0, 0]⟩ = .error .index := by
  constructor <;> decide +kernel

/-- the defect is total: as the code is, a periodic `Distancevel` on a system whose box has more
    than three entries raises IndexError for *every* geometry (whenever both atoms exist) -/
theorem distancevel_box9_always_indexerror (s : Sys) (x y z r : ℚ) (rest : List ℚ) (i0 i1 : Int)
    (p0 p1 : V3) (h0 : getAtom s.pos i0 = .ok p0) (h1 : getAtom s.pos i1 = .ok p1) :
    value .asIs (.distancevel i0 i1 true) { s with box := some (x :: y :: z :: r :: rest) }
      = .error .index := by
  simp only [value, distancevelNum_asIs_longbox s x y z r rest i0 i1 p0 p1 h0 h1]; rfl

/-- **3- vs 9-component boxes for the code as it is**, under exactly the guard that excludes the
    defect: every order parameter except a *periodic* `Distancevel`. -/
theorem box3_box9_agree_partial (op : OP) (hop : ∀ i0 i1, op ≠ .distancevel i0 i1 true)
    (s : Sys) (x y z : ℚ) (rest : List ℚ) :
    value .asIs op { s with box := some (x :: y :: z :: rest) }
      = value .asIs op { s with box := some [x, y, z] } := by
  cases op with
  | distance i0 i1 p => simp only [value, distanceSq_box]
  | distancevel i0 i1 p =>
    cases p with
    | true => exact absurd rfl (hop i0 i1)
    | false => simp only [value, distancevelNum_box_nonperiodic .asIs s _ (some [x, y, z])]
  | position i d => rfl
  | velocity i d => rfl
  | dihedral i0 i1 i2 i3 p => simp only [value, dihedral_box]
  | puckering i0 i1 i2 i3 i4 i5 p => simp only [value, puckering_box]

example : (∀ i0 i1, OP.puckering 0 1 2 3 4 5 true ≠ .distancevel i0 i1 true) ∧
    value .asIs (.puckering 0 1 2 3 4 5 true) { exSys with box := some [4, 8, 4, 0, 0, 0, 0, 0, 0] }
      = value .asIs (.puckering 0 1 2 3 4 5 true) exSys := by
  constructor
  · intro i0 i1 h; cases h
  · decide +kernel

/-! ### rotations -/

/-- **Rotation invariance** of the non-periodic distance², distance-rate numerator, dihedral
    (numerator, denominator, |v2|²) and puckering projections under any rational `R` with
    `RᵀR = 1`, `det R = 1` applied to all positions (and velocities).  Dot products are preserved,
    the triple product is multiplied by `det R`. -/
theorem rotation_invariant (var : Variant) (op : OP) (hrel : op.relative = true)
    (hnp : op.periodic = false) (R : Mat3) (hR : IsRotation R) (s : Sys) :
    value var op (rotate R s) = value var op s := by
  cases op with
  | distance i0 i1 p =>
    simp only [OP.periodic] at hnp; subst hnp
    simp only [value, distanceSq_rotate R hR]
  | distancevel i0 i1 p =>
    simp only [OP.periodic] at hnp; subst hnp
    simp only [value, distancevelNum_rotate var R hR]
  | position i d => simp [OP.relative] at hrel
  | velocity i d => simp [OP.relative] at hrel
  | dihedral i0 i1 i2 i3 p =>
    simp only [OP.periodic] at hnp; subst hnp
    simp only [value, dihedral_rotate R hR]
  | puckering i0 i1 i2 i3 i4 i5 p =>
    simp only [OP.periodic] at hnp; subst hnp
    simp only [value]
    exact puckering_rotate R hR s i0 i1 i2 i3 i4 i5

/-- a proper rational rotation from the Pythagorean triples (3,4,5) and (5,12,13) -/
def exRot : Mat3 :=
  ⟨⟨3 / 5, -4 / 5, 0⟩, ⟨48 / 65, 36 / 65, -5 / 13⟩, ⟨20 / 65, 15 / 65, 12 / 13⟩⟩

theorem exRot_isRotation : IsRotation exRot := by
  constructor <;> decide +kernel

example : value .asIs (.puckering 0 1 2 3 4 5 false) (rotate exRot exSys)
    = value .asIs (.puckering 0 1 2 3 4 5 false) exSys ∧
    (value .asIs (.puckering 0 1 2 3 4 5 false) exSys).toOption.isSome = true := by
  constructor <;> decide +kernel

/-! ### purity -/

/-- **Computing an order parameter does not modify the system**: every in-place numpy statement
    of the six `calculate` methods targets a fresh array (binary-operation result, `np.zeros`
    or an advanced-indexing copy), never a view of `system.pos/vel/box`, and no attribute is
    assigned. -/
theorem calculate_pure (var : Variant) (op : OP) (s : Sys) : (calculate var op s).2 = s := by
  cases op <;> rfl

/-- the heap model is not vacuous: an in-place statement on a *view* of a row would show up -/
example : inplace exSys (.posRow 0) (V3.smul 0) = exSys ∧
    inplace exSys (.posRow 1) (V3.smul 0) ≠ exSys := by
  constructor <;> decide +kernel

end Infretis.C20
