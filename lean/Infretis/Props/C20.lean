import Infretis.Lemmas.GeomFrames
/-!
# C20 — order parameters respect the symmetries of what they measure

Property theorems only (helper lemmas: `Infretis/Lemmas/Geom.lean`, `GeomVec.lean`, `GeomSys.lean`).
Model: `Infretis/Model/Geom.lean`, mirroring `infretis/classes/orderparameter.py`.

All statements are about the rational *pre-images* (`value`): `distance` ↦ `[d·d]`,
`distancevel` ↦ `[d·dv, d·d]`, `position`/`velocity` ↦ `[x]`, `dihedral` ↦ `[trip, den, n2]`,
`puckering` ↦ `[zs₀ … zs₅, nn]`.  The code's outputs are fixed functions (sqrt, arctan2, rad2deg,
a quotient by a square root) of these numbers, so every equality below carries over to the
outputs; `[−num, dsq]` ↦ `−num/√dsq` carries the sign change.  Those tails are outside the model
(the tie applies them in floating point and compares with the real classes).

Concrete witnesses and non-vacuity examples are closed by `decide +kernel`: the `Decidable`
instance is evaluated by the Lean kernel itself (core `Rat` arithmetic does not unfold under plain
`decide`); no native code and no axiom beyond the allowed three is involved.

The statements quantify over all rational coordinates, velocities, boxes of any length, Python
indices (negative ones wrap, out-of-range ones give `IndexError` on both sides of each equation),
image multipliers and rotation matrices.

WHICH STATEMENT IS CURRENT.  `Variant.current = .repaired`: since fix 8870063 `Distancevel` slices
`box[:3]` like the other classes.  Box forms: `box3_boxN_agree` (all six classes, no guard) is the
statement about today's code; `box3_box9_agree_counterexample`, `distancevel_box9_always_indexerror`
and `box3_box9_agree_partial` speak about `Variant.asIs`, the code BEFORE the fix (kept as the record of
the defect).  The 9-component form is the box MATRIX `xx yy zz xy xz yx yz zx zy`; the code uses its
DIAGONAL only.  For orthogonal cells (off-diagonals zero — what the property quantifies over) the
cell vectors are the image vectors and everything above applies (`lattice_shift_invariant_orthogonal9`);
for genuinely triclinic cells the per-axis wrap is neither invariant under cell-vector shifts nor the
shortest image (`triclinic_lattice_shift_counterexample`) — outside the property's words ("orthogonal
boxes"), stated so that nobody reads more into `box3_boxN_agree` than "off-diagonal entries are ignored".

Extension pass (second half of this file): minimality of the image, Galilean invariance, when
`calculate` raises / returns and how many values, the Cremer–Pople sums of `Puckering`, what the
constructors and `create_orderparameter` refuse, `calculate_order` and `Path.reverse` end to end
(models: `Model/GeomCtor.lean`, `Model/GeomFlow.lean`; lemmas `Lemmas/GeomMin|GeomTotal|GeomFlow.lean`).

Follow-up pass (end of this file; model `Model/GeomFrames.lean`, lemmas `Lemmas/GeomFrames.lean`): the System states the
LIBRARY makes.  Every `Path.reverse` statement of the earlier passes is about HAND-BUILT frames (frames carrying arrays);
engine-made frames have `pos = vel = None`, loaded ones empty arrays, and there `Path.reverse` with a velocity-dependent
function raises (`pathReverse_engine_made_raises`, `pathReverse_loaded_raises`).  Also: 3×3 boxes (`calculate_box2D`),
rotation invariance whenever no box is applied + the counterexample that shows the guard is needed
(`rotation_invariant_nobox`, `rotation_periodic_counterexample`), the base class's `velocity` key
(`create_base_velocity_flag`).  `calculate_pure` is true by construction (see its doc string): purity is tie-only.
-/
namespace Infretis.C20
open Infretis.Geom

/-- a system used for the non-vacuity examples: 7 atoms, dyadic coordinates, 4×8×4 box -/
def exSys : Sys :=
  { pos := [⟨0, 0, 0⟩, ⟨3, 1 / 2, 1 / 4⟩, ⟨1 / 2, 2, 3⟩, ⟨1 / 2, 5, 7 / 2⟩, ⟨-1, 1, 3 / 2⟩, ⟨5 / 2, -3, 1⟩, ⟨1, 1, -3 / 2⟩]
    vel := [⟨1, 0, 0⟩, ⟨0, 1, 0⟩, ⟨0, 0, 1⟩, ⟨1, 1, 1⟩, ⟨-1, 2, 0⟩, ⟨0, 0, 0⟩, ⟨1 / 2, 0, 1⟩]
    box := some [4, 8, 4] }

/-! ### minimum image -/

/-- `numpy.rint` (as modelled) is a nearest integer. -/
theorem rint_nearest (x : ℚ) : |x - ((rint x : ℤ) : ℚ)| ≤ 1 / 2 := abs_resid_le x

/-- **Minimum image.** A wrapped component never exceeds half the box length. -/
theorem min_image_bound (d L : ℚ) (hL : 0 < L) : |pbcWrap d L| ≤ L / 2 :=
  abs_pbcWrap_le d L hL

/-- the same for the vector `pbc_dist_coordinate` returns with a 3-entry box -/
theorem min_image_bound_vec (d : V3) (a b c : ℚ) (ha : 0 < a) (hb : 0 < b) (hc : 0 < c)
    (w : Wrapped) (h : pbcDist d [a, b, c] = .ok w) :
    |w.v.x| ≤ a / 2 ∧ |w.v.y| ≤ b / 2 ∧ |w.v.z| ≤ c / 2 ∧ w.nan = false := by
  simp only [pbcDist, Except.ok.injEq] at h
  subst h
  refine ⟨abs_pbcWrap_le _ _ ha, abs_pbcWrap_le _ _ hb, abs_pbcWrap_le _ _ hc, ?_⟩
  simp [compNan, ne_of_gt ha, ne_of_gt hb, ne_of_gt hc]

example : pbcWrap 7 4 = -1 ∧ pbcWrap 2 4 = 2 ∧ pbcWrap 6 4 = -2 ∧ pbcWrap (-6) 4 = 2 ∧ (0 : ℚ) < 4 := by
  refine ⟨?_, ?_, ?_, ?_, ?_⟩ <;> decide +kernel

/-! ### rigid translation -/

/-- **Translation invariance** of every relative order parameter (periodic or not, any box,
    both variants): translating all atoms by `t` leaves the pre-image — value or error — unchanged. -/
theorem translation_invariant (var : Variant) (op : OP) (h : op.relative = true) (s : Sys) (t : V3) :
    value var op (translate t s) = value var op s := by
  cases op with
  | distance i0 i1 p => simp only [value, distanceSq_translate]
  | distancevel i0 i1 p => simp only [value, distancevelNum_translate]
  | position i d => simp [OP.relative] at h
  | velocity i d => simp [OP.relative] at h
  | dihedral i0 i1 i2 i3 p => simp only [value, dihedral_translate]
  | puckering i0 i1 i2 i3 i4 i5 p => simp only [value, puckering_translate]

example : (OP.dihedral 0 1 2 3 true).relative = true ∧
    value .asIs (.dihedral 0 1 2 3 true) exSys = .ok [-15 / 4, -447 / 32, 97 / 16] := by
  constructor <;> decide +kernel

/-! ### shifting atoms by box vectors -/

/-- **What exactly holds for one wrapped component** under a shift by `k` box lengths:
    unchanged unless `d/L` is a half-integer *and* `k` is odd, in which case the sign flips
    (`rint` rounds ties to even, so the rounding direction depends on the parity). -/
theorem image_shift_component (d L : ℚ) (k : ℤ) (hL : L ≠ 0) :
    ((¬ WrapTie d L ∨ k % 2 = 0) → pbcWrap (d + (k : ℚ) * L) L = pbcWrap d L) ∧
    ((WrapTie d L ∧ k % 2 = 1) → pbcWrap (d + (k : ℚ) * L) L = - pbcWrap d L) ∧
    |pbcWrap (d + (k : ℚ) * L) L| = |pbcWrap d L| := by
  refine ⟨?_, ?_, ?_⟩
  · rintro (h | h)
    · exact pbcWrap_shift_of_not_tie d L k hL h
    · exact pbcWrap_shift_even d L k hL h
  · rintro ⟨h, hk⟩
    exact pbcWrap_shift_odd_tie d L k hL h hk
  · have := pbcWrap_shift_sq d L k hL
    exact abs_eq_abs.mpr (mul_self_eq_mul_self_iff.mp this)

example : WrapTie 2 4 ∧ pbcWrap (2 + ((1 : ℤ) : ℚ) * 4) 4 = -2 ∧ pbcWrap 2 4 = 2 := by
  refine ⟨?_, ?_, ?_⟩
  · unfold WrapTie IsTie; norm_num
  · decide +kernel
  · decide +kernel

/-- **Image-shift invariance of the periodic distance, ties included.** With a box of at least three
    entries, moving every atom `a` by its own image vector `(kx·Lx, ky·Ly, kz·Lz)` (integer `k`s,
    `ks a`) leaves the squared minimum-image distance unchanged — also at exact half-box ties and
    for any sign of the box lengths. -/
theorem image_shift_invariant_distance (var : Variant) (s : Sys) (L : V3) (rest : List ℚ)
    (ks : Nat → Int × Int × Int) (i0 i1 : Int) (hbox : s.box = some (L.x :: L.y :: L.z :: rest)) :
    value var (.distance i0 i1 true) (shiftImages L ks s) = value var (.distance i0 i1 true) s := by
  simp only [value, distanceSq_shift s L rest ks i0 i1 hbox]

/-- **Image-shift invariance of all periodic order parameters** when no wrapped difference has a
    component exactly at a half-box tie (`TieFreeSys`; at such a tie the minimum image is not
    unique and the sign of that component does depend on the image — see
    `image_shift_component` and `image_shift_invariant_tie_counterexample`). -/
theorem image_shift_invariant (var : Variant) (op : OP) (hper : op.periodic = true) (s : Sys) (L : V3)
    (rest : List ℚ) (ks : Nat → Int × Int × Int) (hbox : s.box = some (L.x :: L.y :: L.z :: rest))
    (htf : TieFreeSys op s L) :
    value var op (shiftImages L ks s) = value var op s := by
  cases op with
  | distance i0 i1 p =>
    simp only [OP.periodic] at hper; subst hper
    exact image_shift_invariant_distance var s L rest ks i0 i1 hbox
  | distancevel i0 i1 p =>
    simp only [OP.periodic] at hper; subst hper
    simp only [value, distancevelNum_shift var s L rest ks i0 i1 hbox htf]
  | position i d => simp [OP.periodic] at hper
  | velocity i d => simp [OP.periodic] at hper
  | dihedral i0 i1 i2 i3 p =>
    simp only [OP.periodic] at hper; subst hper
    simp only [value, dihedral_shift s L rest ks i0 i1 i2 i3 hbox htf]
  | puckering i0 i1 i2 i3 i4 i5 p =>
    simp only [OP.periodic] at hper; subst hper
    simp only [value, puckering_shift s L rest ks i0 i1 i2 i3 i4 i5 hbox htf]

/-- two atoms exactly half a box apart along x -/
def tieSys : Sys :=
  { pos := [⟨0, 0, 0⟩, ⟨2, 0, 0⟩], vel := [⟨0, 0, 0⟩, ⟨1, 0, 0⟩], box := some [4, 4, 4] }

/-- at an exact half-box tie the *signed* periodic parameters are not image-shift invariant:
    moving atom 1 by one box length along x flips the sign of `Distancevel`'s numerator. -/
theorem image_shift_invariant_tie_counterexample :
    value .asIs (.distancevel 0 1 true) tieSys = .ok [2, 4] ∧
    value .asIs (.distancevel 0 1 true)
      (shiftImages ⟨4, 4, 4⟩ (fun a => if a = 1 then (1, 0, 0) else (0, 0, 0)) tieSys) = .ok [-2, 4] := by
  constructor <;> decide +kernel

/-- `exSys` is tie-free for the dihedral 0-1-2-3 (non-vacuity of `image_shift_invariant`) -/
example : (OP.dihedral 0 1 2 3 true).periodic = true ∧ exSys.box = some [4, 8, 4] ∧
    value .asIs (.dihedral 0 1 2 3 true)
      (shiftImages ⟨4, 8, 4⟩ (fun a => if a = 2 then (1, -2, 3) else (0, 0, 0)) exSys)
      = value .asIs (.dihedral 0 1 2 3 true) exSys := by
  refine ⟨?_, ?_, ?_⟩ <;> decide +kernel

/-! ### velocity reversal -/

/-- negate the first entry of a pre-image list (the velocity-linear one) -/
def negHead : List ℚ → List ℚ
  | [] => []
  | x :: t => -x :: t

/-- **Velocity reversal.** Velocity-type parameters (`velocity_dependent = True`: Distancevel,
    Velocity) change sign under `v ↦ −v` (the numerator `d·dv` is negated, `d·d` is not, so the
    code's `num/√dsq` changes sign); position-type ones do not change at all. -/
theorem velocity_reversal_sign (var : Variant) (op : OP) (s : Sys) :
    value var op (reverseVel s) =
      if op.velocityDependent then (value var op s).map negHead else value var op s := by
  cases op with
  | distance i0 i1 p => rfl
  | distancevel i0 i1 p =>
    simp only [value, OP.velocityDependent, if_true, distancevelNum_reverse]
    cases distancevelNum var s i0 i1 p <;> rfl
  | position i d => rfl
  | velocity i d =>
    simp only [value, OP.velocityDependent, if_true, velocity_reverse]
    cases velocity s i d <;> rfl
  | dihedral i0 i1 i2 i3 p => rfl
  | puckering i0 i1 i2 i3 i4 i5 p => rfl

example : value .asIs (.distancevel 0 1 true) exSys = .ok [3 / 2, 21 / 16] ∧
    value .asIs (.distancevel 0 1 true) (reverseVel exSys) = .ok [-3 / 2, 21 / 16] := by
  constructor <;> decide +kernel

/-- **`calculate_order` and the `vel_rev` flag.** With the flag set, the engine hands the order
    parameter the negated velocities: velocity-type results are the negatives of the flag-off
    results, position-type results are identical (both routes of `calculate_order` run the same
    statements after the arrays are known, so this is one statement). -/
theorem calculateOrder_vel_rev (var : Variant) (op : OP) (box0 : Option (List ℚ)) (xyz vel : List V3)
    (box : Option (List ℚ)) :
    (calculateOrder var op true box0 xyz vel box).1 =
      if op.velocityDependent then (calculateOrder var op false box0 xyz vel box).1.map negHead
      else (calculateOrder var op false box0 xyz vel box).1 := by
  have h := velocity_reversal_sign var op
    { pos := xyz, vel := vel, box := newBox box0 box }
  simpa [calculateOrder, calculate, reverseVel] using h

example : (calculateOrder .asIs (.velocity 1 1) true none exSys.pos exSys.vel exSys.box).1 = .ok [-1] ∧
    (calculateOrder .asIs (.velocity 1 1) false none exSys.pos exSys.vel exSys.box).1 = .ok [1] := by
  constructor <;> decide +kernel

/-! ### `Path.reverse` (HAND-BUILT frames: frames that carry position/velocity arrays — the library makes none;
    for the frames it does make see the follow-up pass at the end of this file) -/

theorem negHead_negHead (l : List ℚ) : negHead (negHead l) = l := by
  cases l with
  | nil => rfl
  | cons x t => simp [negHead]

/-- **`Path.reverse`, repaired variant**: recomputing the order of the reversed frame on its physical
    velocities (`vel · (−1)^vel_rev` with the toggled flag) negates the order of every
    velocity-type parameter and leaves position-type ones alone. -/
theorem path_reverse_flips_velocity_order (var : Variant) (op : OP) (f : Frame) :
    (reverseRecompute .repaired var op f).2 =
      if op.velocityDependent then (frameOrder var op f).map negHead else frameOrder var op f := by
  have h := velocity_reversal_sign var op f.sys
  cases hv : f.velRev with
  | false =>
    simp only [reverseRecompute, frameOrder, Frame.physical, hv, Bool.not_false, if_true]
    simpa using h
  | true =>
    simp only [reverseRecompute, frameOrder, Frame.physical, hv, Bool.not_true, Bool.false_eq_true, if_false,
      if_true]
    rw [h]
    cases op.velocityDependent with
    | false => simp
    | true =>
      simp only [if_true]
      cases value var op f.sys with
      | error e => rfl
      | ok l => simp [Except.map, negHead_negHead]

/-- the frame of the witness: one atom with velocity (3,0,0), not reversed -/
def revFrame : Frame := { sys := ⟨[⟨0, 0, 0⟩], [⟨3, 0, 0⟩], none⟩, velRev := false }

example : OP.velocityDependent (.velocity 0 0) = true ∧ frameOrder .asIs (.velocity 0 0) revFrame = .ok [3] ∧
    (reverseRecompute .repaired .asIs (.velocity 0 0) revFrame).2 = .ok [-3] := by
  refine ⟨?_, ?_, ?_⟩ <;> decide +kernel

/-- **The code as it is does not flip the sign**: `Path.reverse` toggles `vel_rev` and calls
    `order_function.calculate(frame)`, which reads the stored velocities and ignores the flag.
    Witness: `Velocity(0,'x')` on a frame with velocity (3,0,0): order 3 before, 3 (not −3) after. -/
theorem path_reverse_velocity_order_counterexample :
    ¬ (∀ (var : Variant) (op : OP) (f : Frame), op.velocityDependent = true →
        (reverseRecompute .asIs var op f).2 = (frameOrder var op f).map negHead) := by
  intro h
  have := h .asIs (.velocity 0 0) revFrame (by decide)
  revert this
  decide +kernel

/-- in general: as the code is, the recomputed order of a frame that was not reversed before is
    simply the old order -/
theorem path_reverse_asIs_order_unchanged (var : Variant) (op : OP) (f : Frame) (hf : f.velRev = false) :
    (reverseRecompute .asIs var op f).2 = frameOrder var op f := by
  simp [reverseRecompute, frameOrder, Frame.physical, hf]

/-! ### 3- and 9-component boxes -/

/-- **3- vs 9-component boxes, repaired variant** (`Distancevel` slicing `box[:3]` like the other
    classes): every order parameter gives the same result for `[x,y,z]` and for `[x,y,z] ++ rest`,
    in particular for the GROMACS form `[x,y,z,0,0,0,0,0,0]`. -/
theorem box3_boxN_agree_repaired (op : OP) (s : Sys) (x y z : ℚ) (rest : List ℚ) :
    value .repaired op { s with box := some (x :: y :: z :: rest) }
      = value .repaired op { s with box := some [x, y, z] } := by
  cases op with
  | distance i0 i1 p => simp only [value, distanceSq_box]
  | distancevel i0 i1 p => simp only [value, distancevelNum_box_repaired]
  | position i d => rfl
  | velocity i d => rfl
  | dihedral i0 i1 i2 i3 p => simp only [value, dihedral_box]
  | puckering i0 i1 i2 i3 i4 i5 p => simp only [value, puckering_box]

theorem box3_box9_agree (op : OP) (s : Sys) (x y z : ℚ) :
    value .repaired op { s with box := some [x, y, z, 0, 0, 0, 0, 0, 0] }
      = value .repaired op { s with box := some [x, y, z] } :=
  box3_boxN_agree_repaired op s x y z _

example : value .repaired (.distancevel 0 1 true) { exSys with box := some [4, 8, 4, 0, 0, 0, 0, 0, 0] }
    = .ok [3 / 2, 21 / 16] := by decide +kernel

/-- **The code as it is violates the 3/9 agreement**: `Distancevel.calculate` hands the whole box to
    `pbc_dist_coordinate`, whose loop over the *box* entries indexes `distance[3]`.
    Witness: atoms (0,0,0), (1,0,0), velocities (0,0,0), (1,0,0): the 3-box gives `d·dv = 1`,
    `d·d = 1` (code: `[1.0]`), the 9-box raises IndexError. -/
theorem box3_box9_agree_counterexample :
    ¬ (∀ (op : OP) (s : Sys) (x y z : ℚ),
        value .asIs op { s with box := some [x, y, z, 0, 0, 0, 0, 0, 0] }
          = value .asIs op { s with box := some [x, y, z] }) := by
  intro h
  have := h (.distancevel 0 1 true) ⟨[⟨0, 0, 0⟩, ⟨1, 0, 0⟩], [⟨0, 0, 0⟩, ⟨1, 0, 0⟩], none⟩ 4 4 4
  revert this
  decide +kernel

/-- the two sides of the witness, written out -/
theorem box3_box9_agree_counterexample_values :
    value .asIs (.distancevel 0 1 true)
      ⟨[⟨0, 0, 0⟩, ⟨1, 0, 0⟩], [⟨0, 0, 0⟩, ⟨1, 0, 0⟩], some [4, 4, 4]⟩ = .ok [1, 1] ∧
    value .asIs (.distancevel 0 1 true)
      ⟨[⟨0, 0, 0⟩, ⟨1, 0, 0⟩], [⟨0, 0, 0⟩, ⟨1, 0, 0⟩], some [4, 4, 4, 0, 0, 0, 0, 0, 0]⟩ = .error .index := by
  constructor <;> decide +kernel

/-- the defect is total: as the code is, a periodic `Distancevel` on a system whose box has more
    than three entries raises IndexError for *every* geometry (whenever both atoms exist) -/
theorem distancevel_box9_always_indexerror (s : Sys) (x y z r : ℚ) (rest : List ℚ) (i0 i1 : Int)
    (p0 p1 : V3) (h0 : getAtom s.pos i0 = .ok p0) (h1 : getAtom s.pos i1 = .ok p1) :
    value .asIs (.distancevel i0 i1 true) { s with box := some (x :: y :: z :: r :: rest) }
      = .error .index := by
  simp only [value, distancevelNum_asIs_longbox s x y z r rest i0 i1 p0 p1 h0 h1]; rfl

/-- **3- vs 9-component boxes for the code as it is**, under exactly the guard that excludes the
    defect: every order parameter except a *periodic* `Distancevel`. -/
theorem box3_box9_agree_partial (op : OP) (hop : ∀ i0 i1, op ≠ .distancevel i0 i1 true)
    (s : Sys) (x y z : ℚ) (rest : List ℚ) :
    value .asIs op { s with box := some (x :: y :: z :: rest) }
      = value .asIs op { s with box := some [x, y, z] } := by
  cases op with
  | distance i0 i1 p => simp only [value, distanceSq_box]
  | distancevel i0 i1 p =>
    cases p with
    | true => exact absurd rfl (hop i0 i1)
    | false => simp only [value, distancevelNum_box_nonperiodic .asIs s _ (some [x, y, z])]
  | position i d => rfl
  | velocity i d => rfl
  | dihedral i0 i1 i2 i3 p => simp only [value, dihedral_box]
  | puckering i0 i1 i2 i3 i4 i5 p => simp only [value, puckering_box]

example : (∀ i0 i1, OP.puckering 0 1 2 3 4 5 true ≠ .distancevel i0 i1 true) ∧
    value .asIs (.puckering 0 1 2 3 4 5 true) { exSys with box := some [4, 8, 4, 0, 0, 0, 0, 0, 0] }
      = value .asIs (.puckering 0 1 2 3 4 5 true) exSys := by
  constructor
  · intro i0 i1 h; cases h
  · decide +kernel

/-! ### rotations -/

/-- **Rotation invariance** of the non-periodic distance², distance-rate numerator, dihedral
    (numerator, denominator, |v2|²) and puckering projections under any rational `R` with
    `RᵀR = 1`, `det R = 1` applied to all positions (and velocities).  Dot products are preserved,
    the triple product is multiplied by `det R`. -/
theorem rotation_invariant (var : Variant) (op : OP) (hrel : op.relative = true)
    (hnp : op.periodic = false) (R : Mat3) (hR : IsRotation R) (s : Sys) :
    value var op (rotate R s) = value var op s := by
  cases op with
  | distance i0 i1 p =>
    simp only [OP.periodic] at hnp; subst hnp
    simp only [value, distanceSq_rotate R hR]
  | distancevel i0 i1 p =>
    simp only [OP.periodic] at hnp; subst hnp
    simp only [value, distancevelNum_rotate var R hR]
  | position i d => simp [OP.relative] at hrel
  | velocity i d => simp [OP.relative] at hrel
  | dihedral i0 i1 i2 i3 p =>
    simp only [OP.periodic] at hnp; subst hnp
    simp only [value, dihedral_rotate R hR]
  | puckering i0 i1 i2 i3 i4 i5 p =>
    simp only [OP.periodic] at hnp; subst hnp
    simp only [value]
    exact puckering_rotate R hR s i0 i1 i2 i3 i4 i5

/-- a proper rational rotation from the Pythagorean triples (3,4,5) and (5,12,13) -/
def exRot : Mat3 :=
  ⟨⟨3 / 5, -4 / 5, 0⟩, ⟨48 / 65, 36 / 65, -5 / 13⟩, ⟨20 / 65, 15 / 65, 12 / 13⟩⟩

theorem exRot_isRotation : IsRotation exRot := by
  constructor <;> decide +kernel

example : value .asIs (.puckering 0 1 2 3 4 5 false) (rotate exRot exSys)
    = value .asIs (.puckering 0 1 2 3 4 5 false) exSys ∧
    (value .asIs (.puckering 0 1 2 3 4 5 false) exSys).toOption.isSome = true := by
  constructor <;> decide +kernel

/-! ### purity -/

/-- **Computing an order parameter does not modify the system**: every in-place numpy statement
    of the six `calculate` methods targets a fresh array (binary-operation result, `np.zeros`
    or an advanced-indexing copy), never a view of `system.pos/vel/box`, and no attribute is
    assigned.
    HONEST LABEL: this theorem is TRUE BY CONSTRUCTION — the labels `fresh` in `Geom.effects` are asserted by
    hand while reading the code, nothing derives them from it — so it carries no assurance of its own.  The purity
    clause is TIE-ONLY: identity + content snapshot of every System attribute around every `calculate`, and the
    per-class comparison of the changed fields with `Geom.effects` (driver `effects`). -/
theorem calculate_pure (var : Variant) (op : OP) (s : Sys) : (calculate var op s).2 = s := by
  cases op <;> rfl

/-- the heap model is not vacuous: an in-place statement on a *view* of a row would show up -/
example : inplace exSys (.posRow 0) (V3.smul 0) = exSys ∧
    inplace exSys (.posRow 1) (V3.smul 0) ≠ exSys := by
  constructor <;> decide +kernel

/-! ## Extension pass

Which variant is the code: `Variant.current = .repaired` (fix 8870063: `Distancevel` slices `box[:3]`).
The `.asIs` statements above (`box3_box9_agree_counterexample`, `distancevel_box9_always_indexerror`,
`box3_box9_agree_partial`) describe the code BEFORE that fix and are kept as the record of the defect;
the statement about today's code is `box3_boxN_agree` (no guard, all six classes).  The tie checks on
every run that the real `Distancevel` sides with `Variant.current` wherever the variants differ. -/

/-! ### 3-, 9- and n-component boxes: today's code -/

/-- **Box forms, code of today**: every order parameter gives the same result (value, NaN or error)
    for `[x,y,z]` and for `[x,y,z] ++ rest` with ANY tail — the GROMACS 9-form with zero or
    non-zero off-diagonal entries included: only the diagonal of the box matrix is used. -/
theorem box3_boxN_agree (op : OP) (s : Sys) (x y z : ℚ) (rest : List ℚ) :
    value Variant.current op { s with box := some (x :: y :: z :: rest) }
      = value Variant.current op { s with box := some [x, y, z] } :=
  box3_boxN_agree_repaired op s x y z rest

example : value Variant.current (.distancevel 0 1 true) { exSys with box := some [4, 8, 4, 0, 0, 2, 0, 0, 0] }
    = .ok [3 / 2, 21 / 16] := by decide +kernel

/-- a triclinic cell in the 9-component form `xx yy zz xy xz yx yz zx zy`: `b = (2, 4, 0)` -/
def triBox : List ℚ := [4, 4, 4, 0, 0, 2, 0, 0, 0]
/-- two coincident atoms in that cell -/
def triSys : Sys := { pos := [⟨0, 0, 0⟩, ⟨0, 0, 0⟩], vel := [⟨0, 0, 0⟩, ⟨0, 0, 0⟩], box := some triBox }
def triCell : Mat3 := ⟨⟨4, 0, 0⟩, ⟨2, 4, 0⟩, ⟨0, 0, 4⟩⟩

/-- **Genuinely triclinic cells are NOT covered** (the property quantifies over orthogonal boxes; the
    code's docstring says "assumes an orthogonal box"): the per-axis wrap uses the diagonal only, so
    moving an atom by the cell vector `b = (2,4,0)` changes the periodic distance (0 ↦ 2, squared 4),
    and the wrapped vector `(2,0,0)` is not the shortest image (`d − b = 0` is). -/
theorem triclinic_lattice_shift_counterexample :
    boxMatrix triBox = some triCell ∧
    value Variant.current (.distance 0 1 true) triSys = .ok [0] ∧
    value Variant.current (.distance 0 1 true)
      (shiftLattice triCell (fun a => if a = 1 then (0, 1, 0) else (0, 0, 0)) triSys) = .ok [4] := by
  refine ⟨?_, ?_, ?_⟩ <;> decide +kernel

/-- **Orthogonal cells in the 9-component form are covered**: with all six off-diagonal entries zero the
    cell vectors are the image vectors, and shifting any atoms by cell vectors leaves every periodic
    order parameter unchanged (away from half-box ties, as in `image_shift_invariant`). -/
theorem lattice_shift_invariant_orthogonal9 (var : Variant) (op : OP) (hper : op.periodic = true) (s : Sys)
    (x y z : ℚ) (ks : Nat → Int × Int × Int) (hbox : s.box = some [x, y, z, 0, 0, 0, 0, 0, 0])
    (htf : TieFreeSys op s ⟨x, y, z⟩) :
    ∃ M, boxMatrix [x, y, z, 0, 0, 0, 0, 0, 0] = some M ∧ value var op (shiftLattice M ks s) = value var op s := by
  refine ⟨⟨⟨x, 0, 0⟩, ⟨0, y, 0⟩, ⟨0, 0, z⟩⟩, rfl, ?_⟩
  rw [shiftLattice_orthogonal]
  exact image_shift_invariant var op hper s ⟨x, y, z⟩ _ ks hbox htf

example : (OP.puckering 0 1 2 3 4 5 true).periodic = true ∧
    value .asIs (.puckering 0 1 2 3 4 5 true)
      (shiftLattice ⟨⟨4, 0, 0⟩, ⟨0, 8, 0⟩, ⟨0, 0, 4⟩⟩ (fun a => if a = 3 then (2, -1, 1) else (0, 0, 0))
        { exSys with box := some [4, 8, 4, 0, 0, 0, 0, 0, 0] })
      = value .asIs (.puckering 0 1 2 3 4 5 true) { exSys with box := some [4, 8, 4, 0, 0, 0, 0, 0, 0] } := by
  constructor <;> decide +kernel

/-! ### minimum image: an image, and the shortest one -/

/-- the wrapped component is the input minus an integer number of box lengths -/
theorem min_image_is_image (d L : ℚ) (hL : L ≠ 0) : ∃ n : ℤ, pbcWrap d L = d - (n : ℚ) * L :=
  ⟨rint (d / L), pbcWrap_image d L hL⟩

/-- **the wrapped component is the shortest of all images** (this is what "minimum image" means) -/
theorem min_image_minimal (d L : ℚ) (hL : 0 < L) (k : ℤ) : |pbcWrap d L| ≤ |d + (k : ℚ) * L| :=
  abs_pbcWrap_le_image d L hL k

example : pbcWrap 7 4 = 7 - ((2 : ℤ) : ℚ) * 4 ∧ |pbcWrap 7 4| ≤ |(7 : ℚ) + ((-1 : ℤ) : ℚ) * 4| := by
  constructor <;> decide +kernel

theorem sq_le_of_abs_le_half (w L : ℚ) (h : |w| ≤ L / 2) : w * w ≤ L * L / 4 := by
  have h1 := abs_le.mp h
  nlinarith [h1.1, h1.2]

/-- **end-to-end minimum image**: the periodic `Distance` (squared) of ANY two atoms in a box with
    positive lengths `a, b, c` (3-, 9- or n-component form) is at most `(a² + b² + c²)/4`:
    per axis the separation never exceeds half a box length. -/
theorem distance_min_image (var : Variant) (s : Sys) (i0 i1 : Int) (a b c : ℚ) (rest : List ℚ)
    (hbox : s.box = some (a :: b :: c :: rest)) (ha : 0 < a) (hb : 0 < b) (hc : 0 < c) (l : List ℚ)
    (h : value var (.distance i0 i1 true) s = .ok l) :
    ∃ dsq, l = [dsq] ∧ dsq ≤ (a * a + b * b + c * c) / 4 := by
  simp only [value] at h
  obtain ⟨dsq, hd, rfl⟩ := map_eq_ok _ _ _ h
  refine ⟨dsq, rfl, ?_⟩
  unfold distanceSq at hd
  cases h1 : getAtom s.pos i1 with
  | error e => simp [h1, bind, Except.bind] at hd
  | ok p1 =>
  cases h0 : getAtom s.pos i0 with
  | error e => simp [h1, h0, bind, Except.bind] at hd
  | ok p0 =>
  simp only [h1, h0, hbox, applyBox, if_true, take3, pbcDist, bind, Except.bind] at hd
  split at hd
  · simp [throw, throwThe, MonadExceptOf.throw] at hd
  · simp only [pure, Except.pure, Except.ok.injEq] at hd
    subst hd
    simp only [V3.dot]
    have hx := sq_le_of_abs_le_half _ _ (abs_pbcWrap_le (V3.sub p1 p0).x a ha)
    have hy := sq_le_of_abs_le_half _ _ (abs_pbcWrap_le (V3.sub p1 p0).y b hb)
    have hz := sq_le_of_abs_le_half _ _ (abs_pbcWrap_le (V3.sub p1 p0).z c hc)
    linarith

example : exSys.box = some (4 :: 8 :: 4 :: []) ∧ value .asIs (.distance 0 5 true) exSys = .ok [49 / 4] ∧
    (49 / 4 : ℚ) ≤ (4 * 4 + 8 * 8 + 4 * 4) / 4 := by
  refine ⟨?_, ?_, ?_⟩ <;> decide +kernel

/-! ### Galilean shift of the velocities -/

/-- **A uniform velocity shift changes no relative order parameter**: `Distancevel` is the rate of a
    RELATIVE distance (it uses `vel[i1] − vel[i0]` only); the position-type ones do not read velocities. -/
theorem velocity_shift_invariant (var : Variant) (op : OP) (h : op.relative = true) (s : Sys) (u : V3) :
    value var op (shiftVel u s) = value var op s := by
  cases op with
  | distance i0 i1 p => rfl
  | distancevel i0 i1 p => simp only [value, distancevelNum_shiftVel]
  | position i d => simp [OP.relative] at h
  | velocity i d => simp [OP.relative] at h
  | dihedral i0 i1 i2 i3 p => rfl
  | puckering i0 i1 i2 i3 i4 i5 p => rfl

example : value .asIs (.distancevel 0 1 true) (shiftVel ⟨5, -3, 1 / 2⟩ exSys) = .ok [3 / 2, 21 / 16] := by
  decide +kernel

/-- the absolute `Velocity` parameter is (of course) not Galilean invariant — it is not "relative" -/
example : value .asIs (.velocity 0 0) (shiftVel ⟨5, 0, 0⟩ exSys) = .ok [6] ∧
    value .asIs (.velocity 0 0) exSys = .ok [1] := by constructor <;> decide +kernel

/-! ### when `calculate` raises, when it returns, how much it returns -/

/-- **`calculate` raises IndexError exactly when an index is illegal for THIS system** (code of today) -/
theorem calculate_raises_iff (op : OP) (s : Sys) :
    value Variant.current op s = .error .index ↔ op.indicesValid s = false := by
  constructor
  · intro h
    cases hv : op.indicesValid s with
    | false => rfl
    | true => exact absurd h (value_valid_ne_index op s hv)
  · exact value_invalid _ op s

/-- **Totality and length stability**: legal indices and (for periodic variants) no zero box length ⇒
    `calculate` returns, and the pre-image has the fixed length of its class (1, 2, 1, 1, 3, 7).  In
    particular degenerate geometries — coincident atoms, collinear dihedrals, flat or collapsed rings —
    raise nothing: the code returns numbers (possibly NaN from 0/0 in the tails outside the model). -/
theorem calculate_returns (op : OP) (s : Sys) (hv : op.indicesValid s = true)
    (hb : op.periodic = true → BoxNonzero s.box) :
    ∃ l, value Variant.current op s = .ok l ∧ l.length = op.preLen := by
  obtain ⟨l, hl⟩ := value_valid_ok op s hv hb
  exact ⟨l, hl, value_length _ op s l hl⟩

/-- length stability alone, any variant, any system -/
theorem value_length_stable (var : Variant) (op : OP) (s : Sys) (l : List ℚ) (h : value var op s = .ok l) :
    l.length = op.preLen := value_length var op s l h

example : ∃ l, value .asIs (.puckering 0 1 2 3 4 5 true) exSys = .ok l ∧ l.length = 7 := by
  obtain ⟨l, hl⟩ : ∃ l, value .asIs (.puckering 0 1 2 3 4 5 true) exSys = .ok l := by
    have : (value .asIs (.puckering 0 1 2 3 4 5 true) exSys).toOption.isSome = true := by decide +kernel
    cases h : value .asIs (.puckering 0 1 2 3 4 5 true) exSys with
    | ok l => exact ⟨l, rfl⟩
    | error e => rw [h] at this; cases this
  exact ⟨l, hl, value_length_stable _ _ _ l hl⟩

/-- all six atoms the same: every difference is zero, the ring is collapsed -/
def collapsedSys : Sys := { pos := [⟨1, 2, 3⟩], vel := [⟨0, 0, 0⟩], box := some [4, 4, 4] }

example : (OP.puckering 0 0 0 0 0 0 true).indicesValid collapsedSys = true ∧
    value Variant.current (.puckering 0 0 0 0 0 0 true) collapsedSys = .ok [0, 0, 0, 0, 0, 0, 0] ∧
    value Variant.current (.dihedral 0 0 0 0 true) collapsedSys = .ok [0, 0, 0] ∧
    (OP.puckering 0 0 0 0 0 1 true).indicesValid collapsedSys = false ∧
    value Variant.current (.puckering 0 0 0 0 0 1 true) collapsedSys = .error .index := by
  refine ⟨?_, ?_, ?_, ?_, ?_⟩ <;> decide +kernel

/-- **Collinear dihedrals**: if the first (or third) bond vector is parallel to the middle one, both
    arguments of `arctan2` are zero (the code then returns `arctan2(±0, ±0)`, a number, no exception) -/
theorem dihedral_collinear_pre (a : ℚ) (v2 v3 : V3) :
    dihedralOf (V3.smul a v2) v2 v3 = ⟨0, 0, V3.dot v2 v2⟩ ∧
    dihedralOf v3 v2 (V3.smul a v2) = ⟨0, 0, V3.dot v2 v2⟩ := by
  constructor <;>
  · simp only [dihedralOf, V3.triple, V3.dot, V3.cross, V3.smul, DihedralPre.mk.injEq]
    refine ⟨?_, ?_, trivial⟩ <;> ring

example : dihedralOf (V3.smul 3 ⟨1, 2, 2⟩) ⟨1, 2, 2⟩ ⟨0, 1, 5⟩ = ⟨0, 0, 9⟩ := by decide +kernel

/-! ### the second half of `Puckering.calculate` -/

/-- every symmetry of the puckering pre-image carries over to the Cremer–Pople sums `H1, H2, Q3, Σz²`
    (the quantities `theta`, `phi`, `Q` are functions of): they are computed from the pre-image alone -/
theorem puckeringFull_congr (var var' : Variant) (s s' : Sys) (i0 i1 i2 i3 i4 i5 : Int) (p : Bool)
    (h : value var (.puckering i0 i1 i2 i3 i4 i5 p) s = value var' (.puckering i0 i1 i2 i3 i4 i5 p) s') :
    puckeringFull var s i0 i1 i2 i3 i4 i5 p = puckeringFull var' s' i0 i1 i2 i3 i4 i5 p := by
  unfold puckeringFull; rw [h]

/-- translation, rotation (non-periodic) and image-shift (periodic, tie-free) invariance of the sums -/
theorem puckeringFull_invariant (var : Variant) (s : Sys) (i0 i1 i2 i3 i4 i5 : Int) (p : Bool) :
    (∀ t, puckeringFull var (translate t s) i0 i1 i2 i3 i4 i5 p = puckeringFull var s i0 i1 i2 i3 i4 i5 p) ∧
    (∀ R, IsRotation R → p = false →
      puckeringFull var (rotate R s) i0 i1 i2 i3 i4 i5 p = puckeringFull var s i0 i1 i2 i3 i4 i5 p) ∧
    (∀ (L : V3) (rest : List ℚ) (ks : Nat → Int × Int × Int), p = true → s.box = some (L.x :: L.y :: L.z :: rest) →
      TieFreeSys (.puckering i0 i1 i2 i3 i4 i5 p) s L →
      puckeringFull var (shiftImages L ks s) i0 i1 i2 i3 i4 i5 p = puckeringFull var s i0 i1 i2 i3 i4 i5 p) := by
  refine ⟨fun t => ?_, fun R hR hp => ?_, fun L rest ks hp hbox htf => ?_⟩
  · exact puckeringFull_congr _ _ _ _ _ _ _ _ _ _ _ (translation_invariant var _ rfl s t)
  · subst hp
    exact puckeringFull_congr _ _ _ _ _ _ _ _ _ _ _ (rotation_invariant var _ rfl rfl R hR s)
  · subst hp
    exact puckeringFull_congr _ _ _ _ _ _ _ _ _ _ _ (image_shift_invariant var _ rfl s L rest ks hbox htf)

/-- the sums are defined whenever the pre-image is (seven numbers in, five out) -/
theorem puckeringFull_length (var : Variant) (s : Sys) (i0 i1 i2 i3 i4 i5 : Int) (p : Bool) (l : List ℚ)
    (h : puckeringFull var s i0 i1 i2 i3 i4 i5 p = .ok l) : l.length = 5 := by
  unfold puckeringFull at h
  obtain ⟨pre, hpre, rfl⟩ := map_eq_ok _ _ _ h
  have hlen := value_length var _ s pre hpre
  match pre, hlen with
  | [z0, z1, z2, z3, z4, z5, nn], _ => rfl

example : puckeringFull .asIs exSys 0 1 2 3 4 5 false =
    (value .asIs (.puckering 0 1 2 3 4 5 false) exSys).map (fun l =>
      match puckerSums l with | some r => [r.H1, r.H2, r.Q3, r.ZZ, r.nn] | none => []) ∧
    (puckeringFull .asIs exSys 0 1 2 3 4 5 false).toOption.isSome = true := by
  constructor
  · rfl
  · decide +kernel

/-- **Cremer–Pople consistency of what `Puckering.calculate` measures**: the displacements `z_j` from the
    mean plane satisfy the three defining conditions `Σ z_j = 0`, `Σ z_j sin(2πj/6) = 0`, `Σ z_j cos(2πj/6) = 0`,
    and therefore `Σ z_j² = q2² + q3²` — in pre-image form `ZZ = (H1² + ¾H2²)/3 + Q3²/6`: the returned
    `(θ, φ, Q)` are consistent spherical coordinates (`Q cos θ = q3`, `Q sin θ = q2`) for EVERY geometry,
    periodic or not, degenerate or not. -/
theorem puckering_plane_and_amplitude (var : Variant) (s : Sys) (i0 i1 i2 i3 i4 i5 : Int) (p : Bool) (l : List ℚ)
    (h : value var (.puckering i0 i1 i2 i3 i4 i5 p) s = .ok l) :
    ∃ z0 z1 z2 z3 z4 z5 nn S, l = [z0, z1, z2, z3, z4, z5, nn] ∧ puckerSums l = some S ∧
      z0 + z1 + z2 + z3 + z4 + z5 = 0 ∧ z1 + z2 - z4 - z5 = 0 ∧
      z0 + (1 / 2) * (z1 - z2 - z4 + z5) - z3 = 0 ∧
      S.ZZ = (1 / 3) * (S.H1 ^ 2 + (3 / 4) * S.H2 ^ 2) + (1 / 6) * S.Q3 ^ 2 := by
  simp only [value] at h
  obtain ⟨P, hP, rfl⟩ := map_eq_ok _ _ _ h
  obtain ⟨ring, rfl⟩ := puckering_ok_form s i0 i1 i2 i3 i4 i5 p P hP
  have h0 := plane_sum ring
  have h1 := plane_sin ring
  have h2 := plane_cos ring
  refine ⟨_, _, _, _, _, _, _, _, rfl, rfl, h0, h1, h2, ?_⟩
  simp only [puckerOf] at h0 h1 h2 ⊢
  rw [parseval6, h0, h1, h2]
  ring

example : ∃ l S, value .asIs (.puckering 0 1 2 3 4 5 true) exSys = .ok l ∧ puckerSums l = some S ∧
    S.ZZ = (1 / 3) * (S.H1 ^ 2 + (3 / 4) * S.H2 ^ 2) + (1 / 6) * S.Q3 ^ 2 ∧ S.ZZ ≠ 0 := by
  have hs : (value .asIs (.puckering 0 1 2 3 4 5 true) exSys).toOption.isSome = true := by decide +kernel
  cases h : value .asIs (.puckering 0 1 2 3 4 5 true) exSys with
  | error e => rw [h] at hs; cases hs
  | ok l =>
    obtain ⟨z0, z1, z2, z3, z4, z5, nn, S, hl, hS, _, _, _, hZ⟩ := puckering_plane_and_amplitude _ _ _ _ _ _ _ _ _ l h
    refine ⟨l, S, rfl, hS, hZ, ?_⟩
    have : ((value .asIs (.puckering 0 1 2 3 4 5 true) exSys).toOption.bind puckerSums).map
        (fun S => decide (S.ZZ ≠ 0)) = some true := by decide +kernel
    rw [h] at this
    simp only [Except.toOption, Option.bind_some, hS, Option.map_some, Option.some.injEq, decide_eq_true_eq] at this
    exact this

/-! ### construction: what is refused when the object is made, what only at first use -/

/-- **Only the COUNT is checked at construction** (and `dim`, and "no periodic Position"): an object that
    `create_orderparameter` returns has 2 / 2 / 2 / 4 / 6 indices; rings other than 6-membered are refused. -/
theorem create_index_count (st : Settings) (o : Obj) (h : createOrderParameter st = .ok (.obj o)) :
    o.WellCounted := create_wellCounted st o h

example : createOrderParameter ⟨"Puckering", some (.seq [.int 5, .int 4, .int 3, .int 2, .int 1, .int 0]), some true, none⟩
      = .ok (.obj (.puckering [5, 4, 3, 2, 1, 0] true)) ∧ (Obj.puckering [5, 4, 3, 2, 1, 0] true).WellCounted := by
  constructor
  · decide +kernel
  · rfl

/-- number of indices each indexed class insists on -/
def arityOf (k : String) : Option Nat :=
  if k = "position" ∨ k = "distance" ∨ k = "distancevel" then some 2
  else if k = "dihedral" then some 4 else if k = "puckering" then some 6 else none

/-- **A wrong number of indices is refused at construction** (ValueError; TypeError when the value has
    no `len`) — for Position, Distance, Distancevel, Dihedral, Puckering, whatever the other settings are. -/
theorem create_rejects_wrong_count (st : Settings) (n : Nat)
    (hk : arityOf (st.cls.map Char.toLower) = some n) (idx : IdxVal) (hi : st.index = some idx) :
    (∀ l, idx.items? = some l → l.length ≠ n → createOrderParameter st = .error .valueError) ∧
    (idx.items? = none → createOrderParameter st = .error .typeError) := by
  unfold arityOf at hk
  constructor
  · intro l hl hne
    unfold createOrderParameter
    simp only [hi]
    split at hk
    · rename_i h3
      simp only [Option.some.injEq] at hk; subst hk
      rcases h3 with h3 | h3 | h3 <;>
        simp [h3, orderMapKeys, ctorPosition, ctorDistance, ctorDistancevel, verifyPair_wrong_count idx l hl hne,
          bind, Except.bind, Except.map]
    · split at hk
      · rename_i h3
        simp only [Option.some.injEq] at hk; subst hk
        simp [h3, orderMapKeys, ctorDihedral, ctorInts_wrong_count 4 idx l hl hne, bind, Except.bind, Except.map]
      · split at hk
        · rename_i h3
          simp only [Option.some.injEq] at hk; subst hk
          simp [h3, orderMapKeys, ctorPuckering, ctorInts_wrong_count 6 idx l hl hne, bind, Except.bind, Except.map]
        · cases hk
  · intro hl
    unfold createOrderParameter
    simp only [hi]
    split at hk
    · rename_i h3
      rcases h3 with h3 | h3 | h3 <;>
        simp [h3, orderMapKeys, ctorPosition, ctorDistance, ctorDistancevel, verifyPair_no_len idx hl,
          bind, Except.bind, Except.map]
    · split at hk
      · rename_i h3
        simp [h3, orderMapKeys, ctorDihedral, ctorInts_no_len 4 idx hl, bind, Except.bind, Except.map]
      · split at hk
        · rename_i h3
          simp [h3, orderMapKeys, ctorPuckering, ctorInts_no_len 6 idx hl, bind, Except.bind, Except.map]
        · cases hk

example : arityOf (("PuCkErInG" : String).map Char.toLower) = some 6 ∧
    (IdxVal.seq [.int 0, .int 1, .int 2, .int 3, .int 4]).items? = some [.int 0, .int 1, .int 2, .int 3, .int 4] ∧
    createOrderParameter ⟨"PuCkErInG", some (.seq [.int 0, .int 1, .int 2, .int 3, .int 4]), none, none⟩
      = .error .valueError ∧
    createOrderParameter ⟨"Dihedral", some (.scalar (.int 7)), none, none⟩ = .error .typeError := by
  refine ⟨?_, ?_, ?_, ?_⟩ <;> decide +kernel

/-- **The RANGE of the indices is not looked at when the object is made** — it cannot be: the number of
    atoms is unknown then.  Any two ints (negative, equal, huge) make a `Distance`; whether they are
    legal is decided by the first `calculate`, which raises IndexError exactly for the systems that are
    too small (`calculate_raises_iff`).  So "an invalid definition is rejected at construction, never at
    first use" holds for the count, NOT for the range. -/
theorem range_checked_at_first_use (st : Settings) (hk : st.cls.map Char.toLower = "distance") (a b : Int)
    (hi : st.index = some (.seq [.int a, .int b])) :
    ∃ o, createOrderParameter st = .ok (.obj o) ∧ o.toOP = some (.distance a b (st.periodic.getD true)) ∧
      ∀ s : Sys, value Variant.current (.distance a b (st.periodic.getD true)) s = .error .index ↔
        (inRange s.pos.length b && inRange s.pos.length a) = false := by
  refine ⟨.distance (.seq [.int a, .int b]) (st.periodic.getD true), ?_, rfl, fun s => calculate_raises_iff _ s⟩
  unfold createOrderParameter
  simp [hk, hi, orderMapKeys, ctorDistance, verifyPair, IdxVal.items?, bind, Except.bind, pure, Except.pure,
    Except.map]

example : (("Distance" : String).map Char.toLower) = "distance" ∧
    createOrderParameter ⟨"Distance", some (.seq [.int (-100), .int (-100)]), none, none⟩
      = .ok (.obj (.distance (.seq [.int (-100), .int (-100)]) true)) ∧
    value Variant.current (.distance (-100) (-100) true) exSys = .error .index := by
  refine ⟨?_, ?_, ?_⟩ <;> decide +kernel

/-- **Dihedral and Puckering objects always carry Python ints** (the constructor converts with `int()`,
    truncating floats and turning bools into 0/1), so they are always in the domain of `calculate`;
    and the object's `velocity_dependent` flag is the flag of its class. -/
theorem created_object_in_domain (st : Settings) (o : Obj) (h : createOrderParameter st = .ok (.obj o)) :
    (∀ l p, o = .dihedral l p → ∃ op, o.toOP = some op) ∧
    (∀ l p, o = .puckering l p → ∃ op, o.toOP = some op) ∧
    (∀ op, o.toOP = some op → o.velocityDependent = op.velocityDependent) := by
  have hw := create_wellCounted st o h
  refine ⟨fun l p ho => ?_, fun l p ho => ?_, fun op hop => toOP_velocityDependent o op hop⟩
  · subst ho; exact dihedral_toOP l p hw
  · subst ho; exact puckering_toOP l p hw

example : createOrderParameter ⟨"dihedral", some (.seq [.bool true, .float (17 / 10), .float (-5 / 2), .str "-3"]), none, none⟩
    = .ok (.obj (.dihedral [1, 1, -2, -3] false)) ∧
    (Obj.dihedral [1, 1, -2, -3] false).toOP = some (.dihedral 1 1 (-2) (-3) false) := by
  constructor <;> decide +kernel

/-- a `Position` needs an explicit `periodic = false` (the constructor's default is True, which it then
    refuses); a `Velocity` accepts anything as index -/
example : createOrderParameter ⟨"position", some (.seq [.int 0, .int 1]), none, none⟩ = .error .notImplemented ∧
    createOrderParameter ⟨"position", some (.seq [.int 0, .int 1]), some false, none⟩
      = .ok (.obj (.position (.seq [.int 0, .int 1]))) ∧
    createOrderParameter ⟨"velocity", some (.scalar .none), none, some "Z"⟩ = .ok (.obj (.velocity (.scalar .none) 2)) ∧
    createOrderParameter ⟨"velocity", some (.scalar (.int 0)), none, some "w"⟩ = .error .valueError ∧
    createOrderParameter ⟨"orderparameter", none, none, none⟩ = .ok (.obj .base) ∧
    createOrderParameter ⟨"mymodule", none, none, none⟩ = .ok .external := by
  refine ⟨?_, ?_, ?_, ?_, ?_, ?_⟩ <;> decide +kernel

/-! ### `EngineBase.calculate_order` as a whole -/

/-- **Explicit arrays**: nothing is read, the value is that of `calculate` on (xyz, ±vel, box), and the
    System afterwards holds exactly the arrays handed over (velocities times `(−1)^vel_rev`). -/
theorem calculateOrderFull_explicit_route (var : Variant) (op : OP) (s : SysF) (x v : List V3) (b : List ℚ)
    (file : Config) :
    (calculateOrderFull var (some op) s (some x) (some v) (some b) file).read = false ∧
    (calculateOrderFull var (some op) s (some x) (some v) (some b) file).val =
      liftCO (calculateOrder var op s.velRev s.box x v (some b)).1 ∧
    (calculateOrderFull var (some op) s (some x) (some v) (some b) file).sys =
      ⟨x, if s.velRev then v.map V3.neg else v, some b, s.velRev⟩ :=
  calculateOrderFull_explicit var op s x v b file

example : (calculateOrderFull .asIs (some (.distance 0 1 true)) ⟨[], [], some [2, 2, 2], true⟩
      (some exSys.pos) (some exSys.vel) (some [4, 8, 4]) ⟨none, none, none⟩).read = false ∧
    (calculateOrderFull .asIs (some (.distance 0 1 true)) ⟨[], [], some [2, 2, 2], true⟩
      (some exSys.pos) (some exSys.vel) (some [4, 8, 4]) ⟨none, none, none⟩).val = .ok [21 / 16] := by
  constructor <;> decide +kernel

/-- **Both routes agree**: reading (x, v, b) from the configuration file gives the same value and leaves
    the same System as handing the three arrays over (only the read request differs). -/
theorem calculateOrderFull_routes_agree (var : Variant) (fn : Option OP) (s : SysF) (x v : List V3) (b : List ℚ)
    (file : Config) :
    (calculateOrderFull var fn s none none none ⟨some x, some v, some b⟩).val =
      (calculateOrderFull var fn s (some x) (some v) (some b) file).val ∧
    (calculateOrderFull var fn s none none none ⟨some x, some v, some b⟩).sys =
      (calculateOrderFull var fn s (some x) (some v) (some b) file).sys ∧
    (calculateOrderFull var fn s none none none ⟨some x, some v, some b⟩).read = true := by
  refine ⟨?_, ?_, ?_⟩ <;> cases fn <;> rfl

/-- **One missing argument discards the other two** (as the code is): if any of xyz / vel / box is `None`
    the file is read and ALL THREE come from the file — explicit arrays given alongside are ignored. -/
theorem calculateOrderFull_missing_arg_reads_all (var : Variant) (fn : Option OP) (s : SysF)
    (xyz vel : Option (List V3)) (box : Option (List ℚ)) (file : Config)
    (h : xyz = none ∨ vel = none ∨ box = none) :
    calculateOrderFull var fn s xyz vel box file = calculateOrderFull var fn s none none none file := by
  have hr : (xyz.isNone || vel.isNone || box.isNone) = true := by
    rcases h with h | h | h <;> subst h <;> simp
  simp [calculateOrderFull, hr]

/-- the quirk on a concrete call: explicit positions are dropped because `box` is missing -/
example : (calculateOrderFull .asIs (some (.position 0 0)) ⟨[], [], none, false⟩
      (some [⟨7, 7, 7⟩]) (some [⟨0, 0, 0⟩]) none ⟨some [⟨1, 2, 3⟩], some [⟨0, 0, 0⟩], none⟩).val = .ok [1] ∧
    (calculateOrderFull .asIs (some (.position 0 0)) ⟨[], [], none, false⟩
      (some [⟨7, 7, 7⟩]) (some [⟨0, 0, 0⟩]) none ⟨some [⟨1, 2, 3⟩], some [⟨0, 0, 0⟩], none⟩).read = true := by
  constructor <;> decide +kernel

/-- **`vel_rev` through the whole of `calculate_order`** (either route, as long as velocities arrive):
    velocity-type values are negated, position-type values unchanged. -/
theorem calculateOrderFull_vel_rev (var : Variant) (op : OP) (s : SysF) (xyz vel : Option (List V3))
    (box : Option (List ℚ)) (file : Config) (v : List V3)
    (hv : (if xyz.isNone || vel.isNone || box.isNone then file.vel else vel) = some v) :
    (calculateOrderFull var (some op) { s with velRev := true } xyz vel box file).val =
      if op.velocityDependent
      then (calculateOrderFull var (some op) { s with velRev := false } xyz vel box file).val.map negHead
      else (calculateOrderFull var (some op) { s with velRev := false } xyz vel box file).val := by
  rw [calculateOrderFull_eq, calculateOrderFull_eq]
  have hB : ∀ (b : Bool) (X : Option (List ℚ)), coBox { s with velRev := b } X = coBox s X := by
    intro b X; cases X <;> rfl
  have hP : ∀ (b : Bool) (X : Option (List V3)), coPos { s with velRev := b } X = coPos s X := fun _ _ => rfl
  simp only [hv, hB, hP, coVel, if_true, Bool.false_eq_true, if_false]
  have key := fun P B => velocity_reversal_sign var op ⟨P, v, B⟩
  simp only [reverseVel] at key
  rw [key]
  cases op.velocityDependent with
  | false => simp
  | true =>
    simp only [if_true]
    cases value var op _ <;> rfl

example : (calculateOrderFull .asIs (some (.velocity 1 1)) ⟨[], [], none, true⟩ none none none
      ⟨some exSys.pos, some exSys.vel, exSys.box⟩).val = .ok [-1] ∧
    (calculateOrderFull .asIs (some (.velocity 1 1)) ⟨[], [], none, false⟩ none none none
      ⟨some exSys.pos, some exSys.vel, exSys.box⟩).val = .ok [1] := by
  constructor <;> decide +kernel

/-- **Box forms through `calculate_order`** (code of today): an engine handing over the 9-component box
    gets the same value as one handing over the 3-component box. -/
theorem calculateOrderFull_box_forms (op : OP) (s : SysF) (X V : List V3) (x y z : ℚ) (rest : List ℚ)
    (file : Config) :
    (calculateOrderFull Variant.current (some op) s (some X) (some V) (some (x :: y :: z :: rest)) file).val =
      (calculateOrderFull Variant.current (some op) s (some X) (some V) (some [x, y, z]) file).val := by
  rw [calculateOrderFull_eq, calculateOrderFull_eq]
  simp only [Option.isNone_some, Bool.or_self, Bool.false_eq_true, if_false, coBox, coPos, Option.getD_some]
  have := box3_boxN_agree op ⟨X, coVel s (some V), none⟩ x y z rest
  simp only at this
  rw [this]

example : (calculateOrderFull Variant.current (some (.distancevel 0 1 true)) ⟨[], [], none, false⟩
      (some exSys.pos) (some exSys.vel) (some [4, 8, 4, 0, 0, 0, 0, 0, 0]) ⟨none, none, none⟩).val
    = .ok [3 / 2, 21 / 16] := by decide +kernel

/-- **No order function**: `ValueError`, but only AFTER the System has been given the new arrays (as the code is) -/
theorem calculateOrderFull_no_order_function (var : Variant) (s : SysF) (x v : List V3) (b : List ℚ)
    (file : Config) :
    (calculateOrderFull var none s (some x) (some v) (some b) file).val = .error .noOrderFunction ∧
    (calculateOrderFull var none s (some x) (some v) (some b) file).sys =
      ⟨x, if s.velRev then v.map V3.neg else v, some b, s.velRev⟩ := by
  constructor <;> simp [calculateOrderFull]

/-- **A configuration without a box keeps the box the System had**; without velocities the old velocities
    stay and are NOT sign-adjusted (as the code is) -/
theorem calculateOrderFull_missing_blocks (var : Variant) (op : OP) (s : SysF) (x : List V3) :
    (calculateOrderFull var (some op) s none none none ⟨some x, none, none⟩).sys = ⟨x, s.vel, s.box, s.velRev⟩ := by
  rw [calculateOrderFull_eq]
  simp [coPos, coVel, coBox]

/-! ### `Path.reverse` as a whole (HAND-BUILT frames carrying arrays; library frames: `pathReverse_engine_made_raises`,
    `pathReverse_loaded_raises`, `pathReverse_library_no_recompute` in the follow-up pass) -/

/-- mirror image with toggled flags: what `Path.reverse` builds before any recomputation -/
def mirrored (revV : Bool) (frames : List PFrame) : List PFrame :=
  frames.reverse.map (fun f => if revV then { f with velRev := !f.velRev } else f)

/-- **Position-type parameters (or no order function, or `rev_v = False`)**: the reversed path is the
    mirror image, every stored order (all components) is kept, `vel_rev` toggled iff `rev_v`; nothing is
    recomputed and nothing can raise. -/
theorem pathReverse_no_recompute (rv : ReverseVariant) (var : Variant) (fn : Option (OP × Bool)) (revV : Bool)
    (maxlen : Option Nat) (frames : List PFrame)
    (h : fn = none ∨ revV = false ∨ ∃ op, fn = some (op, false)) :
    pathReverse rv var fn revV maxlen frames = .ok (appendAll maxlen (mirrored revV frames)) := by
  unfold pathReverse mirrored
  rcases h with h | h | ⟨op, h⟩
  · subst h; rfl
  · subst h; cases fn with
    | none => rfl
    | some x => simp
  · subst h; simp

/-- a path that respects its own `maxlen` loses no frame -/
theorem appendAll_eq (maxlen : Option Nat) (fs : List PFrame) (h : ∀ m, maxlen = some m → fs.length ≤ m) :
    appendAll maxlen fs = fs := by
  cases maxlen with
  | none => rfl
  | some m => exact List.take_of_length_le (h m rfl)

/-- what the recomputation does to one frame: coordinates and flag untouched, order replaced by the
    value on the arrays the variant looks at -/
theorem recomputeFrame_spec (rv : ReverseVariant) (var : Variant) (op : OP) (f g : PFrame)
    (h : recomputeFrame rv var op f = .ok g) :
    g.sys = f.sys ∧ g.velRev = f.velRev ∧
    (∀ l, value var op (recomputeSys rv f) = .ok l → g.order = .recomputed l) := by
  unfold recomputeFrame at h
  split at h
  · rename_i l hl
    simp only [Except.ok.injEq] at h; subst h
    refine ⟨rfl, rfl, fun l' hl' => ?_⟩
    rw [hl] at hl'; simp only [Except.ok.injEq] at hl'; subst hl'; rfl
  · rename_i hl
    simp only [Except.ok.injEq] at h; subst h
    refine ⟨rfl, rfl, fun l' hl' => ?_⟩
    rw [hl] at hl'; cases hl'
  · cases h

/-- **Whole-path statement, any variant**: if `Path.reverse` returns, the new path has the frames of the
    old one in reverse order (coordinates, velocities, box untouched; none lost when the path respects
    `maxlen`), every `vel_rev` toggled, and each order recomputed on the arrays the variant looks at. -/
theorem pathReverse_frames (rv : ReverseVariant) (var : Variant) (op : OP) (maxlen : Option Nat)
    (frames out : List PFrame) (hm : ∀ m, maxlen = some m → frames.length ≤ m)
    (h : pathReverse rv var (some (op, true)) true maxlen frames = .ok out) :
    List.Forall₂ (fun f g => g.sys = f.sys ∧ g.velRev = !f.velRev ∧
      (∀ l, value var op (recomputeSys rv { f with velRev := !f.velRev }) = .ok l → g.order = .recomputed l))
      frames.reverse out := by
  unfold pathReverse at h
  simp only [Bool.and_self, if_true] at h
  rw [appendAll_eq maxlen _ (by intro m hm'; simpa using hm m hm'), List.mapM_map] at h
  refine mapM_forall₂ _ _ (fun f g hfg => ?_) _ _ h
  have := recomputeFrame_spec rv var op _ g hfg
  simpa using this

theorem pathReverse_length (rv : ReverseVariant) (var : Variant) (op : OP) (maxlen : Option Nat)
    (frames out : List PFrame) (hm : ∀ m, maxlen = some m → frames.length ≤ m)
    (h : pathReverse rv var (some (op, true)) true maxlen frames = .ok out) : out.length = frames.length := by
  have := (pathReverse_frames rv var op maxlen frames out hm h).length_eq
  simpa using this.symm

/-- **Repaired variant, whole path**: for a velocity-type parameter every recomputed order is the old
    frame's order with the first value negated, in mirrored sequence. -/
theorem pathReverse_repaired_negates (var : Variant) (op : OP) (hvd : op.velocityDependent = true)
    (maxlen : Option Nat) (frames out : List PFrame) (hm : ∀ m, maxlen = some m → frames.length ≤ m)
    (h : pathReverse .repaired var (some (op, true)) true maxlen frames = .ok out) :
    List.Forall₂ (fun f g => ∀ l, frameOrder var op ⟨f.sys, f.velRev⟩ = .ok l → g.order = .recomputed (negHead l))
      frames.reverse out := by
  refine List.Forall₂.imp (fun f g hfg => ?_) (pathReverse_frames .repaired var op maxlen frames out hm h)
  intro l hl
  have hflip := path_reverse_flips_velocity_order var op ⟨f.sys, f.velRev⟩
  simp only [reverseRecompute, hvd, if_true] at hflip
  refine hfg.2.2 (negHead l) ?_
  show value var op (Frame.physical ⟨f.sys, !f.velRev⟩) = .ok (negHead l)
  rw [hflip, hl]; rfl

/-- **The code as it is, whole path**: the recomputed order is the value on the STORED velocities, so for
    frames that were not reversed before (`vel_rev = False`, e.g. a freshly generated forward path) the
    orders of a velocity-type parameter come back unchanged instead of negated. -/
theorem pathReverse_asIs_not_negated (var : Variant) (op : OP) (maxlen : Option Nat)
    (frames out : List PFrame) (hm : ∀ m, maxlen = some m → frames.length ≤ m)
    (h : pathReverse .asIs var (some (op, true)) true maxlen frames = .ok out) :
    List.Forall₂ (fun f g => f.velRev = false → ∀ l, frameOrder var op ⟨f.sys, f.velRev⟩ = .ok l →
      g.order = .recomputed l) frames.reverse out := by
  refine List.Forall₂.imp (fun f g hfg => ?_) (pathReverse_frames .asIs var op maxlen frames out hm h)
  intro hf l hl
  refine hfg.2.2 l ?_
  show value var op f.sys = .ok l
  simpa [frameOrder, Frame.physical, hf] using hl

/-- a forward path of three frames, `Velocity(0, 'x')` orders 1, 2, 3 -/
def fwdPath : List PFrame :=
  [⟨⟨[⟨0, 0, 0⟩], [⟨1, 0, 0⟩], none⟩, false, .stored [1]⟩,
   ⟨⟨[⟨1, 0, 0⟩], [⟨2, 0, 0⟩], none⟩, false, .stored [2]⟩,
   ⟨⟨[⟨3, 0, 0⟩], [⟨3, 0, 0⟩], none⟩, false, .stored [3]⟩]

/-- the whole-path witness of the open finding: as the code is the reversed path has orders 3, 2, 1;
    on the physical velocities it is −3, −2, −1 -/
theorem pathReverse_velocity_order_counterexample :
    (pathReverse .asIs Variant.current (some (.velocity 0 0, true)) true (some 100) fwdPath).map
      (fun fs => fs.map (fun f => (f.velRev, f.order))) =
        .ok [(true, .recomputed [3]), (true, .recomputed [2]), (true, .recomputed [1])] ∧
    (pathReverse .repaired Variant.current (some (.velocity 0 0, true)) true (some 100) fwdPath).map
      (fun fs => fs.map (fun f => (f.velRev, f.order))) =
        .ok [(true, .recomputed [-3]), (true, .recomputed [-2]), (true, .recomputed [-1])] ∧
    (pathReverse .asIs Variant.current (some (.position 0 0, false)) true (some 100) fwdPath).map
      (fun fs => fs.map (fun f => (f.velRev, f.order))) =
        .ok [(true, .stored [3]), (true, .stored [2]), (true, .stored [1])] := by
  refine ⟨?_, ?_, ?_⟩ <;> decide +kernel

/-- the hypotheses of the whole-path theorems hold on the witness path -/
example : (∀ m, (some 100 : Option Nat) = some m → fwdPath.length ≤ m) ∧
    OP.velocityDependent (.velocity 0 0) = true ∧
    (pathReverse .repaired Variant.current (some (.velocity 0 0, true)) true (some 100) fwdPath).toOption.isSome = true := by
  refine ⟨?_, ?_, ?_⟩
  · intro m hm; cases hm; decide
  · rfl
  · decide +kernel

/-- `maxlen` shorter than the path: the new path silently loses the frames that do not fit (as the code is) -/
example : (pathReverse .asIs Variant.current none true (some 2) fwdPath).map (fun fs => fs.map (fun f => f.order))
    = .ok [.stored [3], .stored [2]] := by decide +kernel

/-- **Reversing twice** (no recomputation) gives the path back, flags included -/
theorem pathReverse_twice (rv : ReverseVariant) (var : Variant) (revV : Bool) (frames : List PFrame) :
    (pathReverse rv var none revV none frames).bind (pathReverse rv var none revV none) = .ok frames := by
  simp only [pathReverse, appendAll, Except.bind]
  congr 1
  rw [List.map_reverse (l := frames), List.reverse_reverse, List.map_map]
  cases revV with
  | false =>
    have : ((fun f : PFrame => if false = true then { f with velRev := !f.velRev } else f) ∘
        fun f : PFrame => if false = true then { f with velRev := !f.velRev } else f) = id := by
      funext f; simp
    rw [this]; simp
  | true =>
    have : ((fun f : PFrame => if true = true then { f with velRev := !f.velRev } else f) ∘
        fun f : PFrame => if true = true then { f with velRev := !f.velRev } else f) = id := by
      funext f; cases f; simp
    rw [this]; simp

/-! ## Follow-up pass: the frames the library really makes, 2-D boxes, periodic parameters without a box

WHICH FRAMES.  The `Path.reverse` theorems above (`path_reverse_*`, `pathReverse_frames`, `pathReverse_repaired_negates`,
`pathReverse_asIs_not_negated`, `pathReverse_velocity_order_counterexample`) speak about HAND-BUILT frames: frames that carry
(N,3) position and velocity arrays.  The library itself never puts such a frame into a path:
`EngineBase.snapshot_to_system` gives every engine-made frame `pos = vel = None`, `load_path` gives every loaded frame the
empty arrays of a bare `System()`.  The theorems of this section are about those frames (`Model/GeomFrames.lean`,
`LFrame`, `pathReverseL`): with a velocity-dependent order function `Path.reverse` RAISES — TypeError on engine-made
frames, IndexError on loaded ones — so the question "is the sign flipped" does not even arise on library frames; it
returns (stored orders mirrored, flags toggled) exactly when nothing is recomputed. -/

/-- mirror image with toggled flags, cut at `maxlen`: what `Path.reverse` builds before any recomputation -/
def mirroredLib (revV : Bool) (maxlen : Option Nat) (frames : List LFrame) : List LFrame := mirroredL revV maxlen frames

/-- **Engine-made paths: `Path.reverse(order_function)` raises TypeError** for EVERY built-in order function that is
    flagged velocity dependent (and would for any built-in class: all six subscript `system.pos` / `system.vel` in their
    first statement), whatever the geometry, the box, the flags: the path must only be non-empty and `maxlen ≠ 0`. -/
theorem pathReverse_engine_made_raises (var : Variant) (op : OP) (maxlen : Option Nat) (frames : List LFrame)
    (hne : frames ≠ []) (hm : maxlen ≠ some 0) (hall : ∀ f ∈ frames, f.arrays = none) :
    pathReverseL var (some (op, true)) true maxlen frames = .error .typeError := by
  unfold pathReverseL
  simp only [Bool.and_self, if_true]
  exact mapM_all_error _ _ _ (mirroredL_ne_nil true maxlen frames hne hm)
    (fun g hg => recomputeLFrame_noArrays var op g (mirroredL_arrays true maxlen frames none hall g hg))

/-- **Loaded paths: IndexError** (bare `System()`: `np.zeros(0)` arrays; the 3×3 zero box is never reached) -/
theorem pathReverse_loaded_raises (var : Variant) (op : OP) (maxlen : Option Nat) (frames : List LFrame)
    (hne : frames ≠ []) (hm : maxlen ≠ some 0) (hall : ∀ f ∈ frames, f.arrays = some ([], [])) :
    pathReverseL var (some (op, true)) true maxlen frames = .error .index := by
  unfold pathReverseL
  simp only [Bool.and_self, if_true]
  exact mapM_all_error _ _ _ (mirroredL_ne_nil true maxlen frames hne hm)
    (fun g hg => recomputeLFrame_empty var op g (mirroredL_arrays true maxlen frames _ hall g hg))

/-- **When it returns**: no order function, `rev_v = False`, or a position-type function (`velocity_dependent = False`,
    e.g. Distance — `calculate` is never called, which is why reversing works for them on frames without arrays):
    the stored orders in mirrored sequence, flags toggled iff `rev_v`, cut at `maxlen`. -/
theorem pathReverse_library_no_recompute (var : Variant) (fn : Option (OP × Bool)) (revV : Bool) (maxlen : Option Nat)
    (frames : List LFrame) (h : fn = none ∨ revV = false ∨ ∃ op, fn = some (op, false)) :
    pathReverseL var fn revV maxlen frames = .ok (mirroredLib revV maxlen frames) := by
  unfold pathReverseL mirroredLib mirroredL
  rcases h with h | h | ⟨op, h⟩
  · subst h; rfl
  · subst h; cases fn with
    | none => rfl
    | some x => simp
  · subst h; simp

/-- **Converse**: if `Path.reverse` with a velocity-dependent function returns at all, every frame it kept carries
    arrays — no engine-made frame is among them. -/
theorem pathReverse_ok_needs_arrays (var : Variant) (op : OP) (maxlen : Option Nat) (frames out : List LFrame)
    (h : pathReverseL var (some (op, true)) true maxlen frames = .ok out) :
    ∀ g ∈ mirroredLib true maxlen frames, g.arrays.isSome = true := by
  unfold pathReverseL at h
  simp only [Bool.and_self, if_true] at h
  exact mapM_ok_forall _ _ (fun a b hab => recomputeLFrame_ok_arrays var op a b hab) _ out h

/-- **One frame**: on an engine-made frame EVERY built-in `calculate` raises TypeError (all six subscript `system.pos` /
    `system.vel` first), on a loaded frame IndexError — whatever the indices, the periodic flag and the box. -/
theorem calculate_on_library_frames (var : Variant) (op : OP) (f : LFrame) :
    (f.arrays = none → calcFrame var op f = .error .typeError) ∧
    (f.arrays = some ([], []) → calcFrame var op f = .error .index) :=
  ⟨calcFrame_noArrays var op f, calcFrame_empty var op f⟩

example : (snapshotToSystem (.flat [4, 4, 4]) [1] false).arrays = none ∧ (loadedFrame [1] false).arrays = some ([], []) ∧
    calcFrame Variant.current (.puckering 0 1 2 3 4 5 true) (snapshotToSystem (.flat [4, 4, 4]) [1] false) = .error .typeError ∧
    calcFrame Variant.current (.distance 0 1 true) (loadedFrame [1] false) = .error .index := by
  refine ⟨?_, ?_, ?_, ?_⟩ <;> decide +kernel

/-- three engine-made frames (orders 1, 2, 3 of `Velocity(0,'x')`, 3-component box) and three loaded ones -/
def enginePath : List LFrame :=
  [snapshotToSystem (.flat [4, 4, 4]) [1] false, snapshotToSystem (.flat [4, 4, 4]) [2] false,
   snapshotToSystem (.flat [4, 4, 4]) [3] false]
def loadedPath : List LFrame := [loadedFrame [1] false, loadedFrame [2] true, loadedFrame [3] false]

example : enginePath ≠ [] ∧ (some 100 : Option Nat) ≠ some 0 ∧ (∀ f ∈ enginePath, f.arrays = none) ∧
    OP.velocityDependent (.velocity 0 0) = true ∧ OP.velocityDependent (.distancevel 0 1 true) = true ∧
    pathReverseL Variant.current (some (.velocity 0 0, true)) true (some 100) enginePath = .error .typeError ∧
    pathReverseL Variant.current (some (.distancevel 0 1 true, true)) true (some 100) enginePath = .error .typeError ∧
    pathReverseL Variant.current (some (.velocity 0 0, true)) true (some 100) loadedPath = .error .index ∧
    (pathReverseL Variant.current (some (.distance 0 1 true, false)) true (some 100) enginePath).map
      (fun fs => fs.map (fun f => (f.velRev, f.order))) = .ok [(true, .stored [3]), (true, .stored [2]), (true, .stored [1])] ∧
    (pathReverseL Variant.current none true (some 2) loadedPath).map
      (fun fs => fs.map (fun f => (f.velRev, f.order))) = .ok [(true, .stored [3]), (false, .stored [2])] := by
  refine ⟨?_, ?_, ?_, ?_, ?_, ?_, ?_, ?_, ?_, ?_⟩ <;> decide +kernel

/-- a path whose LAST frame carries arrays and whose others are engine-made: the recomputation starts at the last
    frame (first of the new path), succeeds there and raises at the next one — the first failing frame decides -/
example : pathReverseL Variant.current (some (.velocity 0 0, true)) true none
      [snapshotToSystem (.flat [4, 4, 4]) [1] false, ⟨some ([⟨0, 0, 0⟩], [⟨3, 0, 0⟩]), .none, false, .stored [3]⟩]
    = .error .typeError ∧
    pathReverseL Variant.current (some (.velocity 0 0, true)) true none
      [⟨some ([⟨0, 0, 0⟩], [⟨3, 0, 0⟩]), .none, false, .stored [3]⟩] =
        .ok [⟨some ([⟨0, 0, 0⟩], [⟨3, 0, 0⟩]), .none, true, .recomputed [3]⟩] := by
  constructor <;> decide +kernel

/-- **Hand-built frames are the special case** the earlier theorems are about: on a frame that carries arrays and a
    1-D box (or none), `calculate` is the `value` of `Model/Geom.lean`. -/
theorem calcFrame_hand_built (var : Variant) (op : OP) (f : PFrame) :
    calcFrame var op f.toL = liftX (value var op f.sys) := calcFrame_toL var op f

example : calcFrame .asIs (.velocity 0 0) (PFrame.toL ⟨revFrame.sys, false, .stored [3]⟩) = .ok [3] := by decide +kernel

/-! ### a 3×3 box (`System()` default, `read_cp2k_box` without CELL) -/

/-- **Periodic classes raise ValueError on a 3×3 box** once their position indices are legal (IndexError wins
    otherwise); non-periodic classes, Position and Velocity never look at the box. -/
theorem calculate_box2D (var : Variant) (op : OP) (pos vel : List V3) (m : Mat3) :
    (op.periodic = true → posAccess op pos = .ok () → valueB var op pos vel (.mat m) = .error .valueError) ∧
    (op.periodic = true → posAccess op pos = .error .index → valueB var op pos vel (.mat m) = .error .index) ∧
    (op.periodic = false → valueB var op pos vel (.mat m) = liftX (value var op ⟨pos, vel, none⟩)) := by
  rw [← periodicFlag_eq]
  refine ⟨fun hp ha => ?_, fun hp ha => ?_, fun hp => ?_⟩
  · simp [valueB, hp, ha]
  · simp [valueB, hp, ha, Err.toX]
  · simp [valueB, hp]

example : (OP.distance 0 1 true).periodic = true ∧ posAccess (.distance 0 1 true) exSys.pos = .ok () ∧
    valueB Variant.current (.distance 0 1 true) exSys.pos exSys.vel (.mat ⟨⟨100, 0, 0⟩, ⟨0, 100, 0⟩, ⟨0, 0, 100⟩⟩)
      = .error .valueError ∧
    valueB Variant.current (.distance 0 9 true) exSys.pos exSys.vel (.mat ⟨⟨100, 0, 0⟩, ⟨0, 100, 0⟩, ⟨0, 0, 100⟩⟩)
      = .error .index ∧
    valueB Variant.current (.distance 0 1 false) exSys.pos exSys.vel (.mat ⟨⟨100, 0, 0⟩, ⟨0, 100, 0⟩, ⟨0, 0, 100⟩⟩)
      = .ok [37 / 4 + 1 / 16] := by
  refine ⟨?_, ?_, ?_, ?_, ?_⟩ <;> decide +kernel

/-! ### rotations, second statement -/

/-- **Rotation invariance whenever no box is applied**: non-periodic classes, AND periodic ones on a System without a
    box (`system.box is None`: the code skips the wrap).  `rotation_invariant` is the first disjunct. -/
theorem rotation_invariant_nobox (var : Variant) (op : OP) (hrel : op.relative = true) (R : Mat3) (hR : IsRotation R)
    (s : Sys) (h : op.periodic = false ∨ s.box = none) :
    value var op (rotate R s) = value var op s := by
  rcases h with h | h
  · exact rotation_invariant var op hrel h R hR s
  · have hr : (rotate R s).box = none := h
    rw [value_nobox var op (rotate R s) hr, value_nobox var op s h]
    exact rotation_invariant var op.nonPeriodic (by rw [nonPeriodic_relative]; exact hrel) (nonPeriodic_periodic op) R hR s

/-- the 3-4-5 rotation about z -/
def rotZ345 : Mat3 := ⟨⟨3 / 5, -4 / 5, 0⟩, ⟨4 / 5, 3 / 5, 0⟩, ⟨0, 0, 1⟩⟩
/-- two atoms 3 apart along x in a 4×4×4 box (minimum image: 1) -/
def rotSys : Sys := { pos := [⟨0, 0, 0⟩, ⟨3, 0, 0⟩], vel := [⟨0, 0, 0⟩, ⟨0, 0, 0⟩], box := some [4, 4, 4] }

/-- **The guard is needed**: with a box, a periodic parameter is NOT invariant under rotating the atoms alone (the box
    axes stay): rotating (3,0,0) by the 3-4-5 rotation about z gives (9/5, 12/5, 0), whose minimum image in the 4-box is
    (9/5, −8/5, 0): squared distance 29/5 instead of 1.  (Physically right — an orthogonal cell has no such symmetry —
    and outside the property once read with its quantifier "orthogonal boxes"; stated so the guard is not silent.) -/
theorem rotation_periodic_counterexample :
    ¬ (∀ (var : Variant) (op : OP) (R : Mat3) (s : Sys), op.relative = true → IsRotation R →
        value var op (rotate R s) = value var op s) := by
  intro h
  have hR : IsRotation rotZ345 := by constructor <;> decide +kernel
  have := h Variant.current (.distance 0 1 true) rotZ345 rotSys rfl hR
  revert this
  decide +kernel

example : value Variant.current (.distance 0 1 true) rotSys = .ok [1] ∧
    value Variant.current (.distance 0 1 true) (rotate rotZ345 rotSys) = .ok [29 / 5] ∧
    (OP.distance 0 1 true).periodic = true ∧ ({ rotSys with box := none } : Sys).box = none ∧
    value Variant.current (.distance 0 1 true) (rotate rotZ345 { rotSys with box := none })
      = value Variant.current (.distance 0 1 true) { rotSys with box := none } := by
  refine ⟨?_, ?_, ?_, ?_, ?_⟩ <;> decide +kernel

/-! ### the base class through `create_orderparameter` -/

/-- **`velocity` key**: `class = "orderparameter"` makes a base-class object whose `velocity_dependent` is the value of
    the `velocity` key (False when absent); for every other class the key is never looked at. -/
theorem create_base_velocity_flag (st : Settings) (v : Option Bool) :
    (st.cls.map Char.toLower = "orderparameter" → createOrderParameterX st v = .ok (.base (v.getD false))) ∧
    (st.cls.map Char.toLower ≠ "orderparameter" →
      createOrderParameterX st v = createOrderParameterX st none) := by
  constructor
  · intro hk
    have : createOrderParameter st = .ok (.obj .base) := by
      unfold createOrderParameter; simp [hk, orderMapKeys]
    simp [createOrderParameterX, this]
  · intro hk
    have hb : ∀ o, createOrderParameter st = .ok (.obj o) → o ≠ .base := by
      intro o ho hob
      subst hob
      have hw := create_notBase st
      exact hw hk ho
    unfold createOrderParameterX
    cases hc : createOrderParameter st with
    | error e => rfl
    | ok c =>
      cases c with
      | external => rfl
      | obj o =>
        cases o with
        | base => exact absurd rfl (hb _ hc)
        | _ => rfl

example : createOrderParameterX ⟨"OrderParameter", none, none, none⟩ (some true) = .ok (.base true) ∧
    createOrderParameterX ⟨"orderparameter", none, none, none⟩ none = .ok (.base false) ∧
    createOrderParameterX ⟨"Distance", some (.seq [.int 0, .int 1]), none, none⟩ (some true)
      = .ok (.obj (.distance (.seq [.int 0, .int 1]) true)) := by
  refine ⟨?_, ?_, ?_⟩ <;> decide +kernel

end Infretis.C20
