#!/bin/bash
# offline build of everything the checks need: all Lean modules (models, lemmas, theorems) and all drivers
set -e
cd "$(dirname "$0")/lean"
targets="Infretis"
for f in Drivers/C*.lean; do b=$(basename "$f" .lean); targets="$targets drv_$(echo "$b" | tr 'A-Z' 'a-z')"; done
lake build $targets
