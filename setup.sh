#!/bin/bash
# Offline build of everything the checks need: per property the theorems (Infretis.Props.Cxx, which
# pulls in models and lemmas) and the compiled driver.  A package that fails to build does not stop
# the others: its own check rebuilds it and reports the broken proof obligation.
cd "$(dirname "$0")/lean" || exit 1
fail=""
for f in Drivers/C*.lean; do
  b=$(basename "$f" .lean)
  lower=$(echo "$b" | tr 'A-Z' 'a-z')
  targets="drv_$lower"
  [ -f "Infretis/Props/$b.lean" ] && targets="Infretis.Props.$b $targets"
  if ! lake build $targets > ".lake-setup-$b.log" 2>&1; then
    fail="$fail $b"
    tail -5 ".lake-setup-$b.log"
  fi
  rm -f ".lake-setup-$b.log"
done
if [ -n "$fail" ]; then echo "setup: packages that did not build:$fail (their checks will report it)"; fi
echo "setup: done"
exit 0
